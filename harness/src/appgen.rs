//! application-level worlds: data files + TOML configuration on disk, built through the real
//! `CompassApp::try_from(path)` configuration path.
use crate::gen::net::write_text;
use crate::run::{Alg, KTerm, Sim};
use crate::world::{AccessCfg, FrontierCfg, TermCfg, TravCfg, World, TURNS};
use routee_compass::app::compass::compass_app::CompassApp;
use routee_compass_core::model::cost::cost_aggregation::CostAggregation;
use serde_json::Value;
use std::path::{Path, PathBuf};
use std::sync::atomic::{AtomicU64, Ordering};

#[derive(Clone, Debug)]
pub enum OutputFormat {
    Ndjson,
    /// (column name, mapping toml expression) in declaration order; sorted flag
    Csv { mapping: Vec<(String, String)>, sorted: bool },
}

#[derive(Clone, Debug)]
pub enum OutputPolicy {
    None,
    File { filename: String, format: OutputFormat, flush_rate: Option<i64> },
    Combined(Vec<OutputPolicy>),
}

#[derive(Clone, Debug)]
pub enum InputPlugin {
    VertexRtree { tolerance: Option<(f64, Option<String>)> },
    EdgeRtree { tolerance: Option<(f64, Option<String>)>, road_classes: bool, vehicle: bool },
    GridSearch,
    LoadBalancerHaversine,
    LoadBalancerNumeric { column: Option<String> },
    LoadBalancerCategorical { column: String, mapping: Vec<(String, f64)>, default: Option<f64> },
    Inject { key: String, value_json: String, overwrite: Option<bool> },
}

#[derive(Clone, Debug)]
pub enum OutputPlugin {
    Summary,
    Traversal { route: Option<String>, tree: Option<String> },
    Uuid,
}

#[derive(Clone, Debug)]
pub struct AppSpec {
    pub world: World,
    pub alg: Alg,
    pub parallelism: usize,
    pub edge_oriented: bool,
    pub persist: bool,
    pub output: OutputPolicy,
    pub input_plugins: Vec<InputPlugin>,
    pub output_plugins: Vec<OutputPlugin>,
    pub gzip: bool,
    pub vertex_perm: usize,
    pub explicit_counts: bool,
    pub extra_edge_cols: bool,
    /// geometry points per edge (2..6); geometry rows to drop from the end of the table
    pub geom_points: usize,
    pub geom_truncate: usize,
    /// every third edge's stored linestring repeats one of its points (a zero-length segment, as digitised data has)
    pub geom_repeat: bool,
    /// every fourth edge (e % 4 == 1) is stored as a linestring of a single point (a zero-length connector)
    pub geom_single: bool,
    /// the positional tables of the output plugins (geometries, identifiers) end their rows with CR LF
    pub crlf: bool,
    /// every fifth edge's stored linestring runs against the edge (digitised the other way round): renderings keep
    /// stored geometries as they are
    pub geom_reversed: bool,
    /// some vertices have no identifier: their row of the identifier table is blank
    pub uuid_blanks: bool,
    /// road class / vehicle restriction data for the edge matcher (independent of the frontier)
    pub matcher_classes: Option<Vec<u8>>,
    pub matcher_vehicle_rows: Option<Vec<(usize, String, f64, String)>>,
    /// energy traversal model instead of the world's distance / speed model (speed table taken from the world)
    pub energy: Option<EnergySpec>,
}

#[derive(Clone, Debug)]
pub struct EnergySpec {
    /// "ice" | "bev" | "phev"
    pub vehicle: String,
    pub grades: Vec<f64>,
    pub cache: bool,
    pub capacity_kwh: f64,
    /// (cache size, speed key precision, grade key precision) of the prediction cache
    pub cache_cfg: (usize, i32, i32),
    /// real_world_energy_adjustment of every model of the vehicle
    pub adjustment: Option<f64>,
}

impl AppSpec {
    pub fn basic(world: World, alg: Alg) -> AppSpec {
        AppSpec {
            world,
            alg,
            parallelism: 2,
            edge_oriented: false,
            persist: true,
            output: OutputPolicy::None,
            input_plugins: vec![],
            output_plugins: vec![OutputPlugin::Summary, OutputPlugin::Traversal { route: Some("edge_id".into()), tree: None }],
            gzip: false,
            vertex_perm: 0,
            explicit_counts: false,
            extra_edge_cols: false,
            geom_points: 2,
            geom_truncate: 0,
            geom_repeat: false,
            geom_single: false,
            crlf: false,
            geom_reversed: false,
            uuid_blanks: false,
            matcher_classes: None,
            matcher_vehicle_rows: None,
            energy: None,
        }
    }
}

static DIR_COUNTER: AtomicU64 = AtomicU64::new(0);

pub fn work_root() -> PathBuf {
    PathBuf::from(crate::root()).join(".work")
}

pub fn fresh_dir(tag: &str) -> PathBuf {
    let n = DIR_COUNTER.fetch_add(1, Ordering::Relaxed);
    let d = work_root().join(format!("{}-{}-{}", tag, std::process::id(), n));
    let _ = std::fs::create_dir_all(&d);
    d
}

pub fn remove_dir(d: &Path) {
    let _ = std::fs::remove_dir_all(d);
}

fn tstr(s: &str) -> String {
    format!("\"{}\"", s.replace('\\', "\\\\").replace('"', "\\\""))
}

fn alg_toml(a: &Alg) -> String {
    let sim = |s: &Sim| match s {
        Sim::Default => String::new(),
        Sim::AcceptAll => ", similarity = { type = \"accept_all\" }".to_string(),
        Sim::EdgeIdCosine(t) => format!(", similarity = {{ type = \"edge_id_cosine_similarity\", threshold = {t:?} }}"),
        Sim::DistanceCosine(t) => format!(", similarity = {{ type = \"distance_weighted_cosine_similarity\", threshold = {t:?} }}"),
    };
    let term = |t: &KTerm| match t {
        KTerm::Default => String::new(),
        KTerm::Exact => ", termination = { type = \"exact\" }".to_string(),
        KTerm::MaxIteration(m) => format!(", termination = {{ type = \"max_iteration\", max = {m} }}"),
        KTerm::Factor(f) => format!(", termination = {{ type = \"factor\", factor = {f} }}"),
    };
    match a {
        Alg::Dijkstra => "{ type = \"dijkstra\" }".to_string(),
        Alg::AStar(None) => "{ type = \"a*\" }".to_string(),
        Alg::AStar(Some(w)) => format!("{{ type = \"a*\", weight_factor = {w:?} }}"),
        Alg::SingleVia { k, under, sim: s, term: t } => format!("{{ type = \"ksp_single_via\", k = {k}, underlying = {}{}{} }}", alg_toml(under), sim(s), term(t)),
        Alg::Yens { k, under, sim: s, term: t } => format!("{{ type = \"yens\", k = {k}, underlying = {}{}{} }}", alg_toml(under), sim(s), term(t)),
    }
}

fn rate_toml(r: &routee_compass_core::model::cost::vehicle::vehicle_cost_rate::VehicleCostRate) -> String {
    use routee_compass_core::model::cost::vehicle::vehicle_cost_rate::VehicleCostRate as R;
    match r {
        R::Zero => "{ type = \"zero\" }".into(),
        R::Raw => "{ type = \"raw\" }".into(),
        R::Factor { factor } => format!("{{ type = \"factor\", factor = {factor:?} }}"),
        R::Offset { offset } => format!("{{ type = \"offset\", offset = {offset:?} }}"),
        // a combined rate is an internally tagged newtype variant holding a sequence, which serde cannot
        // represent; the application monitors only use the representable rates
        R::Combined(_) => "{ type = \"raw\" }".into(),
    }
}

pub fn rate_representable(r: &routee_compass_core::model::cost::vehicle::vehicle_cost_rate::VehicleCostRate) -> bool {
    !matches!(r, routee_compass_core::model::cost::vehicle::vehicle_cost_rate::VehicleCostRate::Combined(_))
}

fn hhmmss(ms: u64) -> String {
    // the configuration syntax has one-second resolution (hh:mm:ss)
    let s = ms / 1000;
    format!("{:02}:{:02}:{:02}", s / 3600, (s / 60) % 60, s % 60)
}

fn term_toml(t: &TermCfg, table: &str) -> String {
    match t {
        TermCfg::None => format!("[{table}]\ntype = \"iterations\"\nlimit = 1000000000\n"),
        TermCfg::Iterations(l) => format!("[{table}]\ntype = \"iterations\"\nlimit = {l}\n"),
        TermCfg::SolutionSize(l) => format!("[{table}]\ntype = \"solution_size\"\nlimit = {l}\n"),
        TermCfg::Runtime { limit_ms, frequency } => format!("[{table}]\ntype = \"query_runtime\"\nlimit = \"{}\"\nfrequency = {frequency}\n", hhmmss(*limit_ms)),
        TermCfg::Combined(v) => {
            let inner: Vec<String> = v
                .iter()
                .map(|m| match m {
                    TermCfg::Iterations(l) => format!("{{ type = \"iterations\", limit = {l} }}"),
                    TermCfg::SolutionSize(l) => format!("{{ type = \"solution_size\", limit = {l} }}"),
                    TermCfg::Runtime { limit_ms, frequency } => format!("{{ type = \"query_runtime\", limit = \"{}\", frequency = {frequency} }}", hhmmss(*limit_ms)),
                    _ => "{ type = \"iterations\", limit = 1000000000 }".to_string(),
                })
                .collect();
            format!("[{table}]\ntype = \"combined\"\nmodels = [{}]\n", inner.join(", "))
        }
    }
}

fn frontier_inline(f: &FrontierCfg, dir: &Path, idx: &mut usize, files: &mut Vec<(PathBuf, String)>) -> String {
    *idx += 1;
    let i = *idx;
    match f {
        FrontierCfg::None => "{ type = \"no_restriction\" }".into(),
        FrontierCfg::RoadClass { classes, mapping } => {
            let p = dir.join(format!("road_classes_{i}.txt"));
            files.push((p.clone(), classes.iter().map(|c| c.to_string()).collect::<Vec<_>>().join("\n") + "\n"));
            let parser = if mapping.is_empty() {
                String::new()
            } else {
                format!(", road_class_parser = {{ mapping = {{ {} }} }}", mapping.iter().map(|(k, v)| format!("{} = {}", k, v)).collect::<Vec<_>>().join(", "))
            };
            format!("{{ type = \"road_class\", road_class_input_file = {}{} }}", tstr(p.to_str().unwrap_or("")), parser)
        }
        FrontierCfg::Vehicle { rows } => {
            let p = dir.join(format!("vehicle_restrictions_{i}.csv"));
            files.push((p.clone(), crate::world::vehicle_rows_csv(rows)));
            format!("{{ type = \"vehicle_restriction\", vehicle_restriction_input_file = {} }}", tstr(p.to_str().unwrap_or("")))
        }
        FrontierCfg::Turn { pairs } => {
            let p = dir.join(format!("turn_restrictions_{i}.csv"));
            let mut s = String::from("prev_edge_id,next_edge_id\n");
            for (a, b) in pairs {
                s.push_str(&format!("{a},{b}\n"));
            }
            files.push((p.clone(), s));
            format!("{{ type = \"turn_restriction\", turn_restriction_input_file = {} }}", tstr(p.to_str().unwrap_or("")))
        }
        FrontierCfg::Combined(v) => {
            let inner: Vec<String> = v.iter().map(|m| frontier_inline(m, dir, idx, files)).collect();
            format!("{{ type = \"combined\", models = [{}] }}", inner.join(", "))
        }
    }
}

/// stored geometry of edge e: `points` points from the source vertex to the destination vertex, with a
/// deterministic sideways bulge so that intermediate points are unique to the edge
pub fn edge_geometry(spec: &AppSpec, e: usize) -> Vec<(f32, f32)> {
    let net = &spec.world.net;
    let (a, b) = (net.coords[net.edges[e].src], net.coords[net.edges[e].dst]);
    if spec.geom_single && e % 4 == 1 {
        return vec![a];
    }
    let n = spec.geom_points.max(2);
    let pts: Vec<(f32, f32)> = (0..n)
        .map(|i| {
            if i == 0 {
                a
            } else if i == n - 1 {
                b
            } else {
                let t = i as f32 / (n - 1) as f32;
                // not symmetric in t, so that no stored geometry reads the same in both directions
                let bulge = 0.0001 * ((e % 7) as f32 + 1.0) * (t * (1.0 - t)) * (0.5 + t);
                (a.0 + (b.0 - a.0) * t + bulge, a.1 + (b.1 - a.1) * t - bulge)
            }
        })
        .collect();
    let pts: Vec<(f32, f32)> = if spec.geom_reversed && e % 5 == 2 { pts.into_iter().rev().collect() } else { pts };
    if spec.geom_repeat && e % 3 == 0 {
        // repeat the point at position e % n (first, interior or last)
        let k = e % n;
        let mut out = pts.clone();
        out.insert(k, pts[k]);
        return out;
    }
    pts
}

/// the identifier stored for vertex v in this application's table (blank for every fifth vertex from 2 on when the
/// table has blanks)
pub fn uuid_for(spec: &AppSpec, v: usize) -> String {
    if spec.uuid_blanks && v % 5 == 2 {
        String::new()
    } else {
        uuid_of(v)
    }
}

pub fn uuid_of(v: usize) -> String {
    format!("uuid-{:04}-{:x}", v, v * 7919 + 13)
}

fn policy_toml(p: &OutputPolicy) -> String {
    match p {
        OutputPolicy::None => "{ type = \"none\" }".to_string(),
        OutputPolicy::File { filename, format, flush_rate } => {
            let f = match format {
                OutputFormat::Ndjson => "{ type = \"json\", newline_delimited = true }".to_string(),
                OutputFormat::Csv { mapping, sorted } => format!(
                    "{{ type = \"csv\", sorted = {}, mapping = {{ {} }} }}",
                    sorted,
                    mapping.iter().map(|(k, v)| format!("{} = {}", k, v)).collect::<Vec<_>>().join(", ")
                ),
            };
            let fr = flush_rate.map(|r| format!(", file_flush_rate = {r}")).unwrap_or_default();
            format!("{{ type = \"file\", filename = {}, format = {}{} }}", tstr(filename), f, fr)
        }
        OutputPolicy::Combined(v) => format!("{{ type = \"combined\", policies = [{}] }}", v.iter().map(policy_toml).collect::<Vec<_>>().join(", ")),
    }
}

/// run-level override JSON for a policy (same structure as the TOML)
pub fn policy_json(p: &OutputPolicy) -> Value {
    use serde_json::json;
    match p {
        OutputPolicy::None => json!({"type": "none"}),
        OutputPolicy::File { filename, format, flush_rate } => {
            let f = match format {
                OutputFormat::Ndjson => json!({"type": "json", "newline_delimited": true}),
                OutputFormat::Csv { .. } => json!(null),
            };
            let mut o = json!({"type": "file", "filename": filename, "format": f});
            if let Some(r) = flush_rate {
                o["file_flush_rate"] = json!(r);
            }
            o
        }
        OutputPolicy::Combined(v) => json!({"type": "combined", "policies": v.iter().map(policy_json).collect::<Vec<_>>()}),
    }
}

pub struct BuiltApp {
    pub app: CompassApp,
    pub dir: PathBuf,
    pub config_path: PathBuf,
    pub toml: String,
}

/// write all data files and the TOML for `spec` into `dir` and return the TOML text
pub fn write_config(spec: &AppSpec, dir: &Path) -> std::io::Result<(PathBuf, String)> {
    let w = &spec.world;
    let net = &w.net;
    let ext = if spec.gzip { ".gz" } else { "" };
    let edges_path = dir.join(format!("edges.csv{ext}"));
    let vertices_path = dir.join(format!("vertices.csv{ext}"));
    write_text(&edges_path, &net.edges_csv(spec.extra_edge_cols), spec.gzip)?;
    write_text(&vertices_path, &net.vertices_csv(spec.vertex_perm), spec.gzip)?;
    let mut files: Vec<(PathBuf, String)> = vec![];
    let mut t = String::new();
    t.push_str(&format!("parallelism = {}\n", spec.parallelism));
    t.push_str(&format!("search_orientation = \"{}\"\n", if spec.edge_oriented { "edge" } else { "vertex" }));
    t.push_str(&format!("response_persistence_policy = \"{}\"\n", if spec.persist { "persist_response_in_memory" } else { "discard_response_from_memory" }));
    t.push_str(&format!("response_output_policy = {}\n", policy_toml(&spec.output)));
    t.push_str(&format!("algorithm = {}\n", alg_toml(&spec.alg)));
    // frontier
    let mut idx = 0;
    t.push_str(&format!("frontier = {}\n", frontier_inline(&w.frontier, dir, &mut idx, &mut files)));
    // graph
    t.push_str("\n[graph]\n");
    t.push_str(&format!("edge_list_input_file = {}\n", tstr(edges_path.to_str().unwrap_or(""))));
    t.push_str(&format!("vertex_list_input_file = {}\n", tstr(vertices_path.to_str().unwrap_or(""))));
    t.push_str("verbose = false\n");
    if spec.explicit_counts {
        t.push_str(&format!("n_edges = {}\nn_vertices = {}\n", net.ne(), net.nv()));
    }
    // state + traversal
    let mut energy_done = false;
    if let (Some(en), TravCfg::Speed { speeds, speed_unit, dist_unit, time_unit }) = (&spec.energy, &w.trav) {
        let p = dir.join("speeds.txt");
        std::fs::write(&p, speeds.iter().map(|s| format!("{s:?}")).collect::<Vec<_>>().join("\n") + "\n")?;
        let gp = dir.join("grades.txt");
        std::fs::write(&gp, en.grades.iter().map(|s| format!("{s:?}")).collect::<Vec<_>>().join("\n") + "\n")?;
        let mdir = "/repo/rust/routee-compass-powertrain/src/routee/test";
        let cache = if en.cache { format!(", float_cache_policy = {{ cache_size = {}, key_precisions = [{}, {}] }}", en.cache_cfg.0, en.cache_cfg.1, en.cache_cfg.2) } else { String::new() };
        let adj = en.adjustment.map(|a| format!(", real_world_energy_adjustment = {a:?}")).unwrap_or_default();
        let model = |name: &str, file: &str, eru: &str| format!("name = \"{name}\", model_input_file = \"{mdir}/{file}\", model_type = \"smartcore\", speed_unit = \"miles_per_hour\", grade_unit = \"decimal\", energy_rate_unit = \"{eru}\", ideal_energy_rate = 0.05{adj}{cache}");
        let vehicle = match en.vehicle.as_str() {
            "ice" => format!("{{ type = \"ice\", {} }}", model("ice", "Toyota_Camry.bin", "gallons_gasoline_per_mile")),
            "bev" => format!("{{ type = \"bev\", battery_capacity = {:?}, battery_capacity_unit = \"kilowatt_hours\", {} }}", en.capacity_kwh, model("bev", "2017_CHEVROLET_Bolt.bin", "kilowatt_hours_per_mile")),
            _ => format!(
                "{{ type = \"phev\", name = \"phev\", battery_capacity = {:?}, battery_capacity_unit = \"kilowatt_hours\", charge_depleting = {{ {} }}, charge_sustaining = {{ {} }} }}",
                en.capacity_kwh,
                model("cd", "2016_CHEVROLET_Volt_Charge_Depleting.bin", "kilowatt_hours_per_mile"),
                model("cs", "2016_CHEVROLET_Volt_Charge_Sustaining.bin", "gallons_gasoline_per_mile")
            ),
        };
        // the energy model's own units: those of its time model, other ones, or the defaults (the state features carry
        // the time model's units in every case)
        let own_units = match speeds.len() % 3 {
            0 => format!("distance_unit = \"{}\"\ntime_unit = \"{}\"\n", dist_unit, time_unit),
            1 => "distance_unit = \"kilometers\"\ntime_unit = \"hours\"\n".to_string(),
            _ => String::new(),
        };
        t.push_str(&format!(
            "\n[traversal]\ntype = \"energy_model\"\ngrade_table_input_file = {}\ngrade_table_grade_unit = \"decimal\"\n{own_units}vehicles = [{vehicle}]\n\n[traversal.time_model]\ntype = \"speed_table\"\nspeed_table_input_file = {}\nspeed_unit = \"{su}\"\ndistance_unit = \"{du}\"\ntime_unit = \"{tu}\"\n",
            tstr(gp.to_str().unwrap_or("")),
            tstr(p.to_str().unwrap_or("")),
            du = dist_unit,
            tu = time_unit,
            su = speed_unit
        ));
        energy_done = true;
    }
    if !energy_done {
    match &w.trav {
        TravCfg::Distance { unit } => {
            t.push_str(&format!("\n[state]\ndistance = {{ distance_unit = \"{}\", initial = {:?} }}\n", w.state.dist_unit, w.state.dist_init));
            t.push_str(&format!("\n[traversal]\ntype = \"distance\"\ndistance_unit = \"{}\"\n", unit));
        }
        TravCfg::Speed { speeds, speed_unit, dist_unit, time_unit } => {
            let p = dir.join(format!("speeds.txt{ext}"));
            write_text(&p, &(speeds.iter().map(|s| format!("{s:?}")).collect::<Vec<_>>().join("\n") + "\n"), spec.gzip)?;
            t.push_str(&format!(
                "\n[traversal]\ntype = \"speed_table\"\nspeed_table_input_file = {}\nspeed_unit = \"{}\"\ndistance_unit = \"{}\"\ntime_unit = \"{}\"\n",
                tstr(p.to_str().unwrap_or("")),
                speed_unit,
                dist_unit,
                time_unit
            ));
        }
    }
    }
    // access: plain, or wrapped in a combined model in one of four equivalent ways (see World::access_wrap)
    let access_pairs = |share: f64, files: &mut Vec<(PathBuf, String)>| -> Vec<String> {
        match &w.access {
            AccessCfg::None => vec!["type = \"no_access_model\"".to_string()],
            AccessCfg::TurnDelay { headings, table, unit } => {
                let p = dir.join("headings.csv");
                let mut s = String::from("arrival_heading,departure_heading\n");
                for (a, d) in headings {
                    s.push_str(&format!("{},{}\n", a, d.map(|x| x.to_string()).unwrap_or_default()));
                }
                if !files.iter().any(|(q, _)| *q == p) {
                    files.push((p.clone(), s));
                }
                let tbl: Vec<String> = TURNS.iter().enumerate().map(|(i, n)| format!("{} = {:?}", n, table[i] * share)).collect();
                vec![
                    "type = \"turn_delay\"".to_string(),
                    format!("edge_heading_input_file = {}", tstr(p.to_str().unwrap_or(""))),
                    format!("turn_delay_model = {{ type = \"tabular_discrete\", time_unit = \"{}\", table = {{ {} }} }}", unit, tbl.join(", ")),
                ]
            }
        }
    };
    let inline = |pairs: Vec<String>| format!("{{ {} }}", pairs.join(", "));
    let none = "{ type = \"no_access_model\" }".to_string();
    let models: Option<Vec<String>> = match w.access_wrap {
        1 => Some(vec![inline(access_pairs(1.0, &mut files))]),
        2 => Some(vec![inline(access_pairs(1.0, &mut files)), none]),
        3 => Some(vec![none, inline(access_pairs(1.0, &mut files))]),
        4 => Some(vec![inline(access_pairs(0.3, &mut files)), inline(access_pairs(0.7, &mut files))]),
        _ => None,
    };
    match models {
        Some(m) => t.push_str(&format!("\n[access]\ntype = \"combined\"\naccess_models = [{}]\n", m.join(", "))),
        None => t.push_str(&format!("\n[access]\n{}\n", access_pairs(1.0, &mut files).join("\n"))),
    }
    // cost
    t.push_str("\n[cost]\n");
    t.push_str(&format!("cost_aggregation = \"{}\"\n", match w.cost.agg { CostAggregation::Sum => "sum", CostAggregation::Mul => "mul" }));
    t.push_str(&format!("weights = {{ {} }}\n", w.weights_as_configured().iter().map(|(k, v)| format!("{} = {:?}", k, v)).collect::<Vec<_>>().join(", ")));
    t.push_str(&format!("vehicle_rates = {{ {} }}\n", w.cost.vehicle_rates.iter().map(|(k, v)| format!("{} = {}", k, rate_toml(v))).collect::<Vec<_>>().join(", ")));
    t.push_str("network_rates = {}\n");
    // termination
    t.push('\n');
    t.push_str(&term_toml(&w.term, "termination"));
    // plugins
    let mut ins: Vec<String> = vec![];
    let tol = |t: &Option<(f64, Option<String>)>| match t {
        None => String::new(),
        Some((d, None)) => format!(", distance_tolerance = {d:?}"),
        Some((d, Some(u))) => format!(", distance_tolerance = {d:?}, distance_unit = \"{u}\""),
    };
    let needs_geometry = spec.input_plugins.iter().any(|p| matches!(p, InputPlugin::EdgeRtree { .. })) || spec.output_plugins.iter().any(|p| matches!(p, OutputPlugin::Traversal { .. }));
    let geom_path = dir.join(format!("geometries.txt{ext}"));
    if needs_geometry {
        let rows = net.ne().saturating_sub(spec.geom_truncate);
        let mut s = String::new();
        for e in 0..rows {
            let pts: Vec<String> = edge_geometry(spec, e).iter().map(|(x, y)| format!("{:?} {:?}", x, y)).collect();
            s.push_str(&format!("LINESTRING ({})\n", pts.join(", ")));
        }
        let s = if spec.crlf { s.replace('\n', "\r\n") } else { s };
        write_text(&geom_path, &s, spec.gzip)?;
    }
    for p in &spec.input_plugins {
        match p {
            InputPlugin::VertexRtree { tolerance } => ins.push(format!("{{ type = \"vertex_rtree\", vertices_input_file = {}{} }}", tstr(vertices_path.to_str().unwrap_or("")), tol(tolerance))),
            InputPlugin::EdgeRtree { tolerance, road_classes, vehicle } => {
                let mut extra = String::new();
                if *road_classes {
                    if let Some(c) = &spec.matcher_classes {
                        let p = dir.join("matcher_road_classes.txt");
                        files.push((p.clone(), c.iter().map(|x| x.to_string()).collect::<Vec<_>>().join("\n") + "\n"));
                        extra.push_str(&format!(", road_class_input_file = {}", tstr(p.to_str().unwrap_or(""))));
                    }
                }
                if *vehicle {
                    if let Some(rows) = &spec.matcher_vehicle_rows {
                        let p = dir.join("matcher_vehicle_restrictions.csv");
                        let s = crate::world::vehicle_rows_csv(rows);
                        files.push((p.clone(), s));
                        extra.push_str(&format!(", vehicle_restriction_input_file = {}", tstr(p.to_str().unwrap_or(""))));
                    }
                }
                ins.push(format!("{{ type = \"edge_rtree\", geometry_input_file = {}{}{} }}", tstr(geom_path.to_str().unwrap_or("")), extra, tol(tolerance)));
            }
            InputPlugin::GridSearch => ins.push("{ type = \"grid_search\" }".into()),
            InputPlugin::LoadBalancerHaversine => ins.push("{ type = \"load_balancer\", weight_heuristic = { type = \"haversine\" } }".into()),
            InputPlugin::LoadBalancerNumeric { column } => ins.push(format!(
                "{{ type = \"load_balancer\", weight_heuristic = {{ type = \"custom\", custom_weight_type = {{ type = \"numeric\"{} }} }} }}",
                column.as_ref().map(|c| format!(", column_name = {}", tstr(c))).unwrap_or_default()
            )),
            InputPlugin::LoadBalancerCategorical { column, mapping, default } => ins.push(format!(
                "{{ type = \"load_balancer\", weight_heuristic = {{ type = \"custom\", custom_weight_type = {{ type = \"categorical\", column_name = {}, mapping = {{ {} }}{} }} }} }}",
                tstr(column),
                mapping.iter().map(|(k, v)| format!("{} = {:?}", k, v)).collect::<Vec<_>>().join(", "),
                default.map(|d| format!(", default = {d:?}")).unwrap_or_default()
            )),
            InputPlugin::Inject { key, value_json, overwrite } => ins.push(format!(
                "{{ type = \"inject\", key = {}, value = {}, format = \"json\"{} }}",
                tstr(key),
                tstr(value_json),
                overwrite.map(|o| format!(", overwrite = {o}")).unwrap_or_default()
            )),
        }
    }
    let mut outs: Vec<String> = vec![];
    for p in &spec.output_plugins {
        match p {
            OutputPlugin::Summary => outs.push("{ type = \"summary\" }".into()),
            OutputPlugin::Traversal { route, tree } => outs.push(format!(
                "{{ type = \"traversal\", geometry_input_file = {}{}{} }}",
                tstr(geom_path.to_str().unwrap_or("")),
                route.as_ref().map(|r| format!(", route = \"{r}\"")).unwrap_or_default(),
                tree.as_ref().map(|r| format!(", tree = \"{r}\"")).unwrap_or_default()
            )),
            OutputPlugin::Uuid => {
                // the identifier table follows the application's compression and line-ending choice
                let p = dir.join(format!("uuids.txt{ext}"));
                let body = (0..net.nv()).map(|v| uuid_for(spec, v)).collect::<Vec<_>>().join("\n") + "\n";
                write_text(&p, &if spec.crlf { body.replace('\n', "\r\n") } else { body }, spec.gzip)?;
                outs.push(format!("{{ type = \"uuid\", uuid_input_file = {} }}", tstr(p.to_str().unwrap_or(""))));
            }
        }
    }
    t.push_str(&format!("\n[plugin]\ninput_plugins = [{}]\noutput_plugins = [{}]\n", ins.join(", "), outs.join(", ")));
    for (p, body) in files {
        std::fs::write(p, body)?;
    }
    let cfg = dir.join("config.toml");
    std::fs::write(&cfg, &t)?;
    Ok((cfg, t))
}

pub fn build_app(spec: &AppSpec, tag: &str) -> Result<BuiltApp, String> {
    let dir = fresh_dir(tag);
    let (cfg, toml) = write_config(spec, &dir).map_err(|e| format!("io error writing configuration: {e}"))?;
    match CompassApp::try_from(cfg.as_path()) {
        Ok(app) => Ok(BuiltApp { app, dir, config_path: cfg, toml }),
        Err(e) => {
            remove_dir(&dir);
            Err(format!("{e}\n--- toml ---\n{toml}"))
        }
    }
}

impl Drop for BuiltApp {
    fn drop(&mut self) {
        remove_dir(&self.dir);
    }
}

/// silence stderr (progress bars of the application) for the rest of the process; returns a
/// duplicate of the original descriptor so that it can be restored
pub fn silence_stderr() -> i32 {
    unsafe {
        let saved = libc::dup(2);
        let devnull = libc::open(c"/dev/null".as_ptr(), libc::O_WRONLY);
        if devnull >= 0 {
            libc::dup2(devnull, 2);
            libc::close(devnull);
        }
        saved
    }
}

pub fn restore_stderr(saved: i32) {
    if saved >= 0 {
        unsafe {
            libc::dup2(saved, 2);
            libc::close(saved);
        }
    }
}

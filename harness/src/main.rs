use compass_verif::mon::{self, Tier};
use compass_verif::report::{finalise, Meta};
use std::time::Instant;

fn usage() -> ! {
    eprintln!("usage: verif <Cxx> [--tier quick|thorough] [--seed N] [--root /verif]");
    std::process::exit(2)
}

fn main() {
    let args: Vec<String> = std::env::args().collect();
    if args.len() < 2 {
        usage();
    }
    let prop = args[1].clone();
    if prop == "worker" {
        // worker <property> <args...> [--root R]
        let mut rest: Vec<String> = args[2..].to_vec();
        if let Some(i) = rest.iter().position(|a| a == "--root") {
            if let Some(r) = rest.get(i + 1) {
                let _ = compass_verif::ROOT.set(r.clone());
            }
            rest.drain(i..(i + 2).min(rest.len()));
        }
        std::process::exit(compass_verif::mon::worker_main(&rest));
    }
    let mut tier = std::env::var("VERIF_TIER").unwrap_or_else(|_| "quick".into());
    let mut seed: u64 = std::env::var("VERIF_SEED").ok().and_then(|s| s.parse().ok()).unwrap_or(1);
    let mut root = String::from("/verif");
    let mut replay: Option<String> = None;
    let mut i = 2;
    while i < args.len() {
        match args[i].as_str() {
            "--tier" => {
                tier = args.get(i + 1).cloned().unwrap_or_else(|| usage());
                i += 2;
            }
            "--seed" => {
                seed = args.get(i + 1).and_then(|s| s.parse().ok()).unwrap_or_else(|| usage());
                i += 2;
            }
            "--replay" => {
                replay = Some(args.get(i + 1).cloned().unwrap_or_else(|| usage()));
                i += 2;
            }
            "--root" => {
                root = args.get(i + 1).cloned().unwrap_or_else(|| usage());
                i += 2;
            }
            _ => usage(),
        }
    }
    if tier != "quick" && tier != "thorough" {
        usage();
    }
    let _ = compass_verif::ROOT.set(root.clone());
    compass_verif::hooks::install();
    // the library prints progress bars to stderr whenever it reads a file; interface lines go to stdout
    if std::env::var("VERIF_DEBUG").is_err() {
        let _ = compass_verif::appgen::silence_stderr();
    }
    if let Some(path) = replay {
        std::process::exit(mon::replay_file(&prop, &path));
    }
    let t0 = Instant::now();
    let out = match mon::run(&prop, Tier { thorough: tier == "thorough" }, seed) {
        Some(o) => o,
        None => {
            eprintln!("unknown property {prop}");
            std::process::exit(2);
        }
    };
    let meta = Meta {
        property: prop,
        tier,
        seed,
        rule: out.rule,
        assumptions: out.assumptions,
        floor: out.floor,
        exhaustive: out.exhaustive,
        explanation: out.explanation,
    };
    let code = finalise(&meta, &out.report, t0.elapsed().as_secs_f64(), &root);
    std::process::exit(code);
}

//! a core-level "world": a generated network plus traversal / access / cost / frontier /
//! termination configuration, buildable into the repo's `SearchInstance` from public types.
use crate::gen::net::{gen_net, NetParams, RefNet};
use crate::oracle::units as U;
use crate::rng::Rng;
use routee_compass::app::compass::config::frontier_model::{
    combined::combined_service::CombinedFrontierService,
    road_class::{road_class_parser::RoadClassParser, road_class_service::RoadClassFrontierService},
    vehicle_restrictions::{
        vehicle_restriction::VehicleRestriction, vehicle_restriction_row::RestrictionRow,
        vehicle_restriction_service::VehicleRestrictionFrontierService,
    },
};
use routee_compass_core::algorithm::search::search_instance::SearchInstance;
use routee_compass_core::model::access::access_model::AccessModel;
use routee_compass_core::model::access::default::no_access_model::NoAccessModel;
use routee_compass_core::model::access::default::turn_delays::{
    edge_heading::EdgeHeading, turn::Turn, turn_delay_access_model::TurnDelayAccessModel,
    turn_delay_access_model_engine::TurnDelayAccessModelEngine, turn_delay_model::TurnDelayModel,
};
use routee_compass_core::model::cost::{
    cost_aggregation::CostAggregation, cost_model::CostModel,
    network::network_cost_rate::NetworkCostRate, vehicle::vehicle_cost_rate::VehicleCostRate,
};
use routee_compass_core::model::frontier::default::no_restriction::NoRestriction;
use routee_compass_core::model::frontier::frontier_model::FrontierModel;
use routee_compass_core::model::frontier::frontier_model_service::FrontierModelService;
use routee_compass_core::model::network::{EdgeId, Graph};
use routee_compass_core::model::state::state_feature::StateFeature;
use routee_compass_core::model::state::state_model::StateModel;
use routee_compass_core::model::termination::termination_model::TerminationModel;
use routee_compass_core::model::traversal::default::{
    distance_traversal_model::DistanceTraversalModel,
    speed_traversal_engine::{get_max_speed, SpeedTraversalEngine},
    speed_traversal_model::SpeedTraversalModel,
};
use routee_compass_core::model::traversal::traversal_model::TraversalModel;
use routee_compass_core::model::unit::{Cost, Distance, DistanceUnit, Speed, SpeedUnit, Time, TimeUnit};
use serde_json::{json, Value};
use std::collections::HashMap;
use std::sync::Arc;
use std::time::Duration;

pub const TURNS: [&str; 8] = [
    "no_turn", "slight_right", "slight_left", "right", "left", "sharp_right", "sharp_left", "u_turn",
];

fn turn_of(name: &str) -> Turn {
    serde_json::from_value(json!(name)).expect("turn name")
}

#[derive(Clone, Debug)]
pub enum TravCfg {
    Distance { unit: DistanceUnit },
    Speed { speeds: Vec<f64>, speed_unit: SpeedUnit, dist_unit: DistanceUnit, time_unit: TimeUnit },
}

#[derive(Clone, Debug)]
pub struct StateCfg {
    pub dist_unit: DistanceUnit,
    pub dist_init: f64,
    pub time_unit: TimeUnit,
    pub time_init: f64,
}

#[derive(Clone, Debug)]
pub enum AccessCfg {
    None,
    TurnDelay {
        /// (arrival heading, optional departure heading) per edge
        headings: Vec<(i16, Option<i16>)>,
        /// delay per turn class, indexed like `TURNS`
        table: [f64; 8],
        unit: TimeUnit,
    },
}

#[derive(Clone, Debug)]
pub struct CostCfg {
    pub weights: Vec<(String, f64)>,
    pub vehicle_rates: Vec<(String, VehicleCostRate)>,
    /// per-edge surcharge tables per feature
    pub edge_surcharge: Vec<(String, HashMap<usize, f64>)>,
    /// per-turn (prev edge, next edge) surcharge tables per feature
    pub turn_surcharge: Vec<(String, HashMap<(usize, usize), f64>)>,
    pub agg: CostAggregation,
}

#[derive(Clone, Debug)]
pub enum FrontierCfg {
    None,
    RoadClass { classes: Vec<u8>, mapping: Vec<(String, u8)> },
    Vehicle { rows: Vec<(usize, String, f64, String)> },
    Turn { pairs: Vec<(usize, usize)> },
    Combined(Vec<FrontierCfg>),
}

#[derive(Clone, Debug)]
pub enum TermCfg {
    None,
    Iterations(u64),
    SolutionSize(usize),
    Runtime { limit_ms: u64, frequency: u64 },
    Combined(Vec<TermCfg>),
}

#[derive(Clone, Debug)]
pub struct World {
    pub net: RefNet,
    pub trav: TravCfg,
    pub state: StateCfg,
    pub access: AccessCfg,
    /// how the access model is configured: 0 plain, 1 combined [m], 2 combined [m, none], 3 combined [none, m],
    /// 4 combined [0.3 m, 0.7 m] (the delay table dealt out to two turn-delay models). all five mean the same
    pub access_wrap: u8,
    pub cost: CostCfg,
    pub frontier: FrontierCfg,
    pub term: TermCfg,
}

/// the csv text of a vehicle-restriction table. tables with an even number of rows are written with the rows of one
/// edge apart from each other (all first rows in descending edge order, then all second rows ...), the others in the
/// generator's edge-by-edge order: the file's row order carries no meaning
pub fn vehicle_rows_csv(rows: &[(usize, String, f64, String)]) -> String {
    let mut order: Vec<usize> = (0..rows.len()).collect();
    if rows.len() % 2 == 0 {
        let mut seen: HashMap<usize, usize> = HashMap::new();
        let occ: Vec<usize> = rows
            .iter()
            .map(|r| {
                let c = seen.entry(r.0).or_insert(0);
                *c += 1;
                *c
            })
            .collect();
        order.sort_by_key(|i| (occ[*i], std::cmp::Reverse(rows[*i].0)));
    }
    let mut s = String::from("edge_id,restriction_name,restriction_value,restriction_unit\n");
    for i in order {
        let (e, n, v, u) = &rows[i];
        s.push_str(&format!("{e},{n},{v:?},{u}\n"));
    }
    s
}

pub fn rate_value(r: &VehicleCostRate, x: f64) -> f64 {
    match r {
        VehicleCostRate::Zero => 0.0,
        VehicleCostRate::Raw => x,
        VehicleCostRate::Factor { factor } => x * factor,
        VehicleCostRate::Offset { offset } => x + offset,
        VehicleCostRate::Combined(v) => v.iter().fold(x, |acc, f| rate_value(f, acc)),
    }
}

pub fn rate_json(r: &VehicleCostRate) -> Value {
    crate::worldjson::rate_to_json(r)
}

impl TermCfg {
    pub fn build(&self) -> TerminationModel {
        match self {
            // an effectively unlimited model
            TermCfg::None => TerminationModel::IterationsLimit { limit: u64::MAX - 1 },
            TermCfg::Iterations(l) => TerminationModel::IterationsLimit { limit: *l },
            TermCfg::SolutionSize(l) => TerminationModel::SolutionSizeLimit { limit: *l },
            TermCfg::Runtime { limit_ms, frequency } => TerminationModel::QueryRuntimeLimit {
                limit: Duration::from_millis(*limit_ms),
                frequency: *frequency,
            },
            TermCfg::Combined(v) => TerminationModel::Combined { models: v.iter().map(|m| m.build()).collect() },
        }
    }
    pub fn to_json(&self) -> Value {
        match self {
            TermCfg::None => json!("none"),
            TermCfg::Iterations(l) => json!({"iterations": l}),
            TermCfg::SolutionSize(l) => json!({"solution_size": l}),
            TermCfg::Runtime { limit_ms, frequency } => json!({"runtime_ms": limit_ms, "frequency": frequency}),
            TermCfg::Combined(v) => json!({"combined": v.iter().map(|m| m.to_json()).collect::<Vec<_>>()}),
        }
    }
}

impl World {
    pub fn uses_time(&self) -> bool {
        matches!(self.trav, TravCfg::Speed { .. })
    }

    pub fn state_model(&self) -> StateModel {
        let mut f = vec![(
            "distance".to_string(),
            StateFeature::Distance { distance_unit: self.state.dist_unit, initial: Distance::new(self.state.dist_init) },
        )];
        if self.uses_time() {
            f.push((
                "time".to_string(),
                StateFeature::Time { time_unit: self.state.time_unit, initial: Time::new(self.state.time_init) },
            ));
        }
        StateModel::new(f)
    }

    pub fn traversal_model(&self) -> Arc<dyn TraversalModel> {
        match &self.trav {
            TravCfg::Distance { unit } => Arc::new(DistanceTraversalModel::new(*unit)),
            TravCfg::Speed { speeds, speed_unit, dist_unit, time_unit } => {
                let table: Box<[Speed]> = speeds.iter().map(|s| Speed::new(*s)).collect();
                let max_speed = get_max_speed(&table).expect("max speed");
                let engine = SpeedTraversalEngine {
                    speed_table: table,
                    speed_unit: *speed_unit,
                    time_unit: *time_unit,
                    distance_unit: *dist_unit,
                    max_speed,
                };
                Arc::new(SpeedTraversalModel::new(Arc::new(engine)))
            }
        }
    }

    pub fn access_model(&self) -> Arc<dyn AccessModel> {
        use routee_compass_core::model::access::default::combined_model::CombinedAccessModel;
        let none = || -> Arc<dyn AccessModel> { Arc::new(NoAccessModel {}) };
        match self.access_wrap {
            1 => Arc::new(CombinedAccessModel { models: vec![self.access_model_scaled(1.0)] }),
            2 => Arc::new(CombinedAccessModel { models: vec![self.access_model_scaled(1.0), none()] }),
            3 => Arc::new(CombinedAccessModel { models: vec![none(), self.access_model_scaled(1.0)] }),
            4 => Arc::new(CombinedAccessModel { models: vec![self.access_model_scaled(0.3), self.access_model_scaled(0.7)] }),
            _ => self.access_model_scaled(1.0),
        }
    }

    /// the configured access model with its delay table multiplied by `share`
    pub fn access_model_scaled(&self, share: f64) -> Arc<dyn AccessModel> {
        match &self.access {
            AccessCfg::None => Arc::new(NoAccessModel {}),
            AccessCfg::TurnDelay { headings, table, unit } => {
                let hs: Vec<EdgeHeading> = headings
                    .iter()
                    .map(|(a, d)| match d {
                        Some(d) => EdgeHeading::new(*a, *d),
                        None => serde_json::from_value(json!({"arrival_heading": a})).expect("heading"),
                    })
                    .collect();
                let mut t = HashMap::new();
                for (i, name) in TURNS.iter().enumerate() {
                    t.insert(turn_of(name), Time::new(table[i] * share));
                }
                let engine = TurnDelayAccessModelEngine {
                    edge_headings: hs.into_boxed_slice(),
                    turn_delay_model: TurnDelayModel::TabularDiscrete { table: t, time_unit: *unit },
                    time_feature_name: "time".to_string(),
                };
                Arc::new(TurnDelayAccessModel { engine: Arc::new(engine) })
            }
        }
    }

    pub fn network_rates(&self) -> HashMap<String, NetworkCostRate> {
        let mut per_feature: HashMap<String, Vec<NetworkCostRate>> = HashMap::new();
        for (name, tbl) in &self.cost.edge_surcharge {
            let lookup = tbl.iter().map(|(e, c)| (EdgeId(*e), Cost::new(*c))).collect();
            per_feature.entry(name.clone()).or_default().push(NetworkCostRate::EdgeLookup { lookup });
        }
        for (name, tbl) in &self.cost.turn_surcharge {
            let lookup = tbl.iter().map(|((a, b), c)| ((EdgeId(*a), EdgeId(*b)), Cost::new(*c))).collect();
            per_feature.entry(name.clone()).or_default().push(NetworkCostRate::EdgeEdgeLookup { lookup });
        }
        per_feature
            .into_iter()
            .map(|(k, mut v)| if v.len() == 1 { (k, v.remove(0)) } else { (k, NetworkCostRate::Combined(v)) })
            .collect()
    }

    /// the weights as they are handed to the code under test: a feature with weight zero and a feature that is not
    /// mentioned are the same configuration, so every other world (by its edge count) leaves its zero weights out
    pub fn weights_as_configured(&self) -> Vec<(String, f64)> {
        if self.net.ne() % 2 == 0 && self.cost.weights.iter().any(|(_, w)| *w != 0.0) {
            self.cost.weights.iter().filter(|(_, w)| *w != 0.0).cloned().collect()
        } else {
            self.cost.weights.clone()
        }
    }

    pub fn cost_model(&self, sm: Arc<StateModel>) -> Result<CostModel, String> {
        CostModel::new(
            Arc::new(self.weights_as_configured().into_iter().collect()),
            Arc::new(self.cost.vehicle_rates.iter().cloned().collect()),
            Arc::new(self.network_rates()),
            self.cost.agg,
            sm,
        )
        .map_err(|e| e.to_string())
    }

    fn frontier_service(cfg: &FrontierCfg) -> Arc<dyn FrontierModelService> {
        match cfg {
            FrontierCfg::None => Arc::new(NoRestriction {}),
            FrontierCfg::RoadClass { classes, mapping } => {
                let m: serde_json::Map<String, Value> = mapping.iter().map(|(k, v)| (k.clone(), json!(v))).collect();
                let parser: RoadClassParser = serde_json::from_value(json!({ "mapping": m })).expect("parser");
                Arc::new(RoadClassFrontierService {
                    road_class_lookup: Arc::new(classes.clone().into_boxed_slice()),
                    road_class_parser: parser,
                })
            }
            FrontierCfg::Vehicle { rows } if rows.len() % 3 == 0 => {
                // a third of the tables go through the real builder and its csv loader
                use routee_compass::app::compass::config::frontier_model::vehicle_restrictions::vehicle_restriction_builder::VehicleRestrictionBuilder;
                use routee_compass_core::model::frontier::frontier_model_builder::FrontierModelBuilder;
                use std::sync::atomic::{AtomicU64, Ordering};
                static NV: AtomicU64 = AtomicU64::new(0);
                let dir = std::path::PathBuf::from(crate::root()).join(".work");
                let _ = std::fs::create_dir_all(&dir);
                let path = dir.join(format!("turns-v{}-{}.csv", std::process::id(), NV.fetch_add(1, Ordering::Relaxed)));
                let _ = std::fs::write(&path, vehicle_rows_csv(rows));
                let built = VehicleRestrictionBuilder {}.build(&json!({"vehicle_restriction_input_file": path.to_string_lossy()}));
                let _ = std::fs::remove_file(&path);
                match built {
                    Ok(s) => s,
                    Err(e) => panic!("vehicle restriction builder refused the generator's file: {e}"),
                }
            }
            FrontierCfg::Vehicle { rows } => {
                let mut lookup: HashMap<EdgeId, Vec<VehicleRestriction>> = HashMap::new();
                for (e, name, val, unit) in rows {
                    let row = RestrictionRow {
                        edge_id: EdgeId(*e),
                        restriction_name: name.clone(),
                        restriction_value: *val,
                        restriction_unit: unit.clone(),
                    };
                    let r = row.to_restriction().expect("restriction row");
                    lookup.entry(EdgeId(*e)).or_default().push(r);
                }
                Arc::new(VehicleRestrictionFrontierService { vehicle_restriction_lookup: Arc::new(lookup) })
            }
            FrontierCfg::Turn { pairs } => {
                // through the real builder (a small csv file), so that the monitor does not depend on how the service
                // keeps the pairs
                use routee_compass::app::compass::config::frontier_model::turn_restrictions::turn_restriction_builder::TurnRestrictionBuilder;
                use routee_compass_core::model::frontier::frontier_model_builder::FrontierModelBuilder;
                use std::sync::atomic::{AtomicU64, Ordering};
                static N: AtomicU64 = AtomicU64::new(0);
                let dir = std::path::PathBuf::from(crate::root()).join(".work");
                let _ = std::fs::create_dir_all(&dir);
                let path = dir.join(format!("turns-{}-{}.csv", std::process::id(), N.fetch_add(1, Ordering::Relaxed)));
                let mut body = String::from("prev_edge_id,next_edge_id\n");
                for (a, b) in pairs {
                    body.push_str(&format!("{a},{b}\n"));
                }
                let _ = std::fs::write(&path, body);
                let built = TurnRestrictionBuilder {}.build(&json!({"turn_restriction_input_file": path.to_string_lossy()}));
                let _ = std::fs::remove_file(&path);
                match built {
                    Ok(s) => s,
                    Err(e) => panic!("turn restriction builder refused the generator's file: {e}"),
                }
            }
            FrontierCfg::Combined(v) => Arc::new(CombinedFrontierService {
                inner_services: v.iter().map(Self::frontier_service).collect(),
            }),
        }
    }

    pub fn frontier_model(&self, query: &Value, sm: Arc<StateModel>) -> Result<Arc<dyn FrontierModel>, String> {
        Self::frontier_service(&self.frontier).build(query, sm).map_err(|e| e.to_string())
    }

    pub fn si(&self, graph: Arc<Graph>, query: &Value) -> Result<SearchInstance, String> {
        let sm = Arc::new(self.state_model());
        let cm = self.cost_model(sm.clone())?;
        let fm = self.frontier_model(query, sm.clone())?;
        Ok(SearchInstance {
            directed_graph: graph,
            state_model: sm,
            traversal_model: self.traversal_model(),
            access_model: self.access_model(),
            cost_model: Arc::new(cm),
            frontier_model: fm,
            termination_model: Arc::new(self.term.build()),
        })
    }

    // ---------- independent physics (SI table) ----------

    /// distance contribution of edge `e` in the state feature's unit
    pub fn phys_dist(&self, e: usize) -> f64 {
        U::conv_dist(self.net.edges[e].len_m, DistanceUnit::Meters, self.state.dist_unit)
    }
    /// traversal time of edge `e` in the state feature's unit (speed models only)
    pub fn phys_time(&self, e: usize) -> Option<f64> {
        match &self.trav {
            TravCfg::Speed { speeds, speed_unit, .. } => {
                let v = speeds[e] * U::speed_si(*speed_unit);
                Some(self.net.edges[e].len_m / v / U::time_si(self.state.time_unit))
            }
            _ => None,
        }
    }
    /// turn class for prev -> next from the heading table (independent implementation)
    pub fn turn_class(&self, prev: usize, next: usize) -> Option<usize> {
        match &self.access {
            AccessCfg::TurnDelay { headings, .. } => {
                let (pa, pd) = headings[prev];
                let end = pd.unwrap_or(pa) as i32;
                let start = headings[next].0 as i32;
                let mut a = start - end;
                while a > 180 {
                    a -= 360;
                }
                while a < -180 {
                    a += 360;
                }
                Some(classify_angle(a))
            }
            _ => None,
        }
    }
    /// delay of the turn prev -> next in the state time unit
    pub fn phys_delay(&self, prev: usize, next: usize) -> Option<f64> {
        match &self.access {
            AccessCfg::TurnDelay { table, unit, .. } => {
                let c = self.turn_class(prev, next)?;
                Some(U::conv_time(table[c], *unit, self.state.time_unit))
            }
            _ => None,
        }
    }

    pub fn to_json(&self) -> Value {
        crate::worldjson::world_to_json(self)
    }
}

pub fn frontier_json(f: &FrontierCfg) -> Value {
    match f {
        FrontierCfg::None => json!("none"),
        FrontierCfg::RoadClass { classes, mapping } => json!({"road_class": classes, "mapping": mapping}),
        FrontierCfg::Vehicle { rows } => json!({"vehicle": rows}),
        FrontierCfg::Turn { pairs } => json!({"turn": pairs}),
        FrontierCfg::Combined(v) => json!({"combined": v.iter().map(frontier_json).collect::<Vec<_>>()}),
    }
}

/// independent angle -> turn class (index into TURNS)
pub fn classify_angle(a: i32) -> usize {
    let m = a.abs();
    if m >= 160 {
        7 // u_turn
    } else if m >= 135 {
        if a > 0 { 5 } else { 6 } // sharp right / sharp left
    } else if m >= 45 {
        if a > 0 { 3 } else { 4 } // right / left
    } else if m >= 20 {
        if a > 0 { 1 } else { 2 } // slight right / slight left
    } else {
        0
    }
}

// ------------------------------------------------------------------------------------------
// generators
// ------------------------------------------------------------------------------------------

#[derive(Clone, Debug)]
pub struct WorldParams {
    pub net: NetParams,
    pub allow_speed: bool,
    pub allow_turn_delay: bool,
    /// state feature units may differ from the traversal model's units
    pub mixed_units: bool,
    pub random_initials: bool,
    pub rich_cost: bool,
    pub surcharges: bool,
}

impl Default for WorldParams {
    fn default() -> Self {
        WorldParams {
            net: NetParams::default(),
            allow_speed: true,
            allow_turn_delay: false,
            mixed_units: false,
            random_initials: false,
            rich_cost: true,
            surcharges: false,
        }
    }
}

pub fn gen_rate(rng: &mut Rng, nonneg: bool, depth: usize) -> VehicleCostRate {
    match rng.below(if depth == 0 { 5 } else { 4 }) {
        0 => VehicleCostRate::Raw,
        1 => VehicleCostRate::Factor { factor: if nonneg { rng.log_uniform(0.01, 50.0) } else { rng.frange(-10.0, 10.0) } },
        2 => VehicleCostRate::Offset { offset: if nonneg { rng.frange(0.0, 3.0) } else { rng.frange(-3.0, 3.0) } },
        3 => VehicleCostRate::Raw,
        _ => {
            let k = rng.urange(1, 3);
            VehicleCostRate::Combined((0..k).map(|_| gen_rate(rng, nonneg, depth + 1)).collect())
        }
    }
}

pub fn gen_world(rng: &mut Rng, p: &WorldParams) -> World {
    let net = gen_net(rng, &p.net);
    gen_world_on(rng, p, net)
}

pub fn gen_world_on(rng: &mut Rng, p: &WorldParams, net: RefNet) -> World {
    let ne = net.ne();
    let speed = p.allow_speed && rng.chance(0.6);
    let du = *rng.pick(&U::DISTANCE_UNITS);
    let tu = *rng.pick(&U::TIME_UNITS);
    let trav = if speed {
        let su = *rng.pick(&U::SPEED_UNITS);
        // speeds on a 0.5 grid, 5..120 in the table's own unit
        let speeds = (0..ne).map(|_| (rng.urange(10, 240) as f64) * 0.5).collect();
        TravCfg::Speed { speeds, speed_unit: su, dist_unit: du, time_unit: tu }
    } else {
        TravCfg::Distance { unit: du }
    };
    let (sdu, stu) = if p.mixed_units {
        (*rng.pick(&U::DISTANCE_UNITS), *rng.pick(&U::TIME_UNITS))
    } else {
        (du, tu)
    };
    let state = StateCfg {
        dist_unit: sdu,
        dist_init: if p.random_initials && rng.chance(0.5) { rng.frange(0.0, 50.0) } else { 0.0 },
        time_unit: stu,
        time_init: if p.random_initials && rng.chance(0.5) { rng.frange(0.0, 50.0) } else { 0.0 },
    };
    let access = if speed && p.allow_turn_delay && rng.chance(0.7) {
        let headings = (0..ne)
            .map(|_| {
                let a = rng.range(0, 359) as i16;
                let d = if rng.chance(0.7) { Some(rng.range(0, 359) as i16) } else { None };
                (a, d)
            })
            .collect();
        let unit = *rng.pick(&U::TIME_UNITS);
        let scale = 1.0 / U::time_si(unit); // delays of 0..30 seconds expressed in `unit`
        let mut table = [0.0; 8];
        for t in table.iter_mut() {
            *t = if rng.chance(0.2) { 0.0 } else { rng.frange(0.5, 30.0) * scale };
        }
        AccessCfg::TurnDelay { headings, table, unit }
    } else {
        AccessCfg::None
    };
    // cost
    let mut weights = vec![];
    let mut rates = vec![];
    if p.rich_cost {
        let wd = if rng.chance(0.25) { 0.0 } else { rng.log_uniform(0.01, 20.0) };
        let wt = if rng.chance(0.25) { 0.0 } else { rng.log_uniform(0.01, 20.0) };
        if speed {
            let (wd, wt) = if wd == 0.0 && wt == 0.0 { (0.0, 1.0) } else { (wd, wt) };
            weights.push(("distance".to_string(), wd));
            weights.push(("time".to_string(), wt));
            rates.push(("distance".to_string(), gen_rate(rng, true, 0)));
            rates.push(("time".to_string(), gen_rate(rng, true, 0)));
        } else {
            weights.push(("distance".to_string(), if wd == 0.0 { 1.0 } else { wd }));
            rates.push(("distance".to_string(), gen_rate(rng, true, 0)));
        }
    } else {
        weights.push(("distance".to_string(), 1.0));
        rates.push(("distance".to_string(), VehicleCostRate::Raw));
        if speed {
            weights.push(("time".to_string(), 1.0));
            rates.push(("time".to_string(), VehicleCostRate::Raw));
        }
    }
    let mut edge_surcharge = vec![];
    if p.surcharges && rng.chance(0.5) {
        let mut t = HashMap::new();
        for e in 0..ne {
            if rng.chance(0.3) {
                t.insert(e, rng.log_uniform(0.01, 100.0));
            }
        }
        let f = if speed && rng.chance(0.5) { "time" } else { "distance" };
        edge_surcharge.push((f.to_string(), t));
    }
    let access_wrap = if rng.chance(0.35) { rng.urange(1, 4) as u8 } else { 0 };
    World {
        net,
        trav,
        state,
        access,
        access_wrap,
        cost: CostCfg { weights, vehicle_rates: rates, edge_surcharge, turn_surcharge: vec![], agg: CostAggregation::Sum },
        frontier: FrontierCfg::None,
        term: TermCfg::None,
    }
}

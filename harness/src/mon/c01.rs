//! C01 — routes are contiguous origin-to-destination walks; trees are rooted trees.
use super::{MonOut, Tier};
use crate::hooks::Caught;
use crate::oracle::route::{check_route, check_tree, route_ids, Od};
use crate::par::par_cases;
use crate::report::Report;
use crate::rng::{hash_str, Rng};
use crate::run::{err_class, gen_kterm, gen_plain_alg, gen_sim, run_search, step_budget, Alg};
use crate::searchcase::{gen_edge_od, gen_vertex_od};
use crate::world::{gen_world, FrontierCfg, WorldParams};
use serde_json::json;
use crate::worldjson::{load_directed, QueryCase};
use routee_compass_core::algorithm::search::search_instance::SearchInstance;

pub fn gen_alg(rng: &mut Rng, p_ksp: f64) -> Alg {
    if rng.chance(p_ksp) {
        let k = rng.urange(1, 4);
        let under = Box::new(gen_plain_alg(rng, false));
        let sim = gen_sim(rng);
        let term = gen_kterm(rng, k);
        if rng.chance(0.5) {
            Alg::SingleVia { k, under, sim, term }
        } else {
            Alg::Yens { k, under, sim, term }
        }
    } else {
        gen_plain_alg(rng, true)
    }
}

/// expected (root, reverse, origin edge) of each returned tree
pub fn tree_specs(alg: &Alg, od: Od, reverse: bool, net: &crate::gen::net::RefNet) -> Vec<(usize, bool, Option<usize>)> {
    match (alg, od) {
        (Alg::SingleVia { .. }, Od::Vertex(s, Some(d))) => vec![(s, false, None), (d, true, None)],
        (Alg::Yens { .. }, Od::Vertex(s, _)) => vec![(s, false, None)],
        (_, Od::Vertex(s, _)) => vec![(s, reverse, None)],
        (a, Od::Edge(oe, de)) => {
            let root = net.edges[oe].dst;
            let adjacent = de.map(|d| net.edges[d].src == root).unwrap_or(false);
            match (a, de) {
                (Alg::SingleVia { .. }, Some(d)) if !adjacent => vec![(root, false, Some(oe)), (net.edges[d].src, true, Some(oe))],
                _ => vec![(root, false, Some(oe))],
            }
        }
    }
}

pub fn world_params(tier: Tier) -> WorldParams {
    let mut p = WorldParams::default();
    p.net.max_v = if tier.thorough { 60 } else { 26 };
    p.allow_turn_delay = true;
    p.surcharges = true;
    p.mixed_units = false;
    p
}

/// run one fully specified query and apply R1..R5 / T1..T3
pub fn check_query(qc: &QueryCase, si: &SearchInstance, rep: &mut Report) {
    rep.eval();
    let net = &qc.world.net;
    let (alg, od, reverse) = (&qc.alg, qc.od, qc.reverse);
    let with_dest = matches!(od, Od::Vertex(_, Some(_)) | Od::Edge(_, Some(_)));
    let (out, _ctx) = run_search(alg, si, od, reverse, &qc.query, step_budget(net.nv(), net.ne(), qc.k()), false);
    let (orient, dirn) = (qc.orient(), qc.dirn());
    let replay = || qc.to_json();
    let res = match out {
        Err(Caught::Budget(_)) => {
            rep.count("budget_exceeded_(decided_by_C13)", 1);
            return;
        }
        Err(Caught::Panic(m)) => {
            rep.count("panics_(decided_by_C12/C13)", 1);
            rep.seen("panic_messages", crate::hooks::panic_sig(&m));
            return;
        }
        Ok(Err(e)) => {
            rep.count("search_errors", 1);
            rep.seen("error_classes", err_class(&e));
            return;
        }
        Ok(Ok(r)) => r,
    };
    rep.count("successful_searches", 1);
    rep.seen("configurations", format!("{}|{orient}|{dirn}", alg.family()));
    let distinct_od = match od {
        Od::Vertex(s, Some(d)) => s != d,
        Od::Edge(s, Some(d)) => s != d,
        _ => true,
    };
    let mut all_ok = true;
    if with_dest && distinct_od && res.routes.is_empty() {
        rep.violate(&format!("C01|{}|{orient}|R5-no-route-on-success", alg.family()), "R5 the search succeeded but returned no route".into(), replay);
        all_ok = false;
    }
    for (ri, route) in res.routes.iter().enumerate() {
        let ids = route_ids(route);
        let fails = check_route(net, &ids, od, reverse);
        if let Some(f) = fails.first() {
            let clause = f.split(' ').next().unwrap_or("R?");
            rep.violate(&format!("C01|{}|{orient}|{dirn}|{clause}", alg.family()), format!("route {ri} = {ids:?}: {}", fails.join("; ")), replay);
            all_ok = false;
        }
        rep.max("max_route_edges", ids.len() as u64);
    }
    let specs = tree_specs(alg, od, reverse, net);
    if res.trees.len() != specs.len() && !(res.trees.is_empty() && !distinct_od) {
        rep.count("tree_count_differs_from_expectation", 1);
    }
    for (ti, (tree, (root, trev, oe))) in res.trees.iter().zip(specs.iter()).enumerate() {
        let fails = check_tree(net, tree, *root, *trev, *oe);
        if let Some(f) = fails.first() {
            let clause = f.split(' ').next().unwrap_or("T?");
            rep.violate(
                &format!("C01|{}|{orient}|{}|tree{ti}|{clause}", alg.family(), if *trev { "reverse" } else { "forward" }),
                format!("tree {ti} ({} entries, root {root}): {}", tree.len(), fails.join("; ")),
                replay,
            );
            all_ok = false;
        }
        rep.max("max_tree_entries", tree.len() as u64);
        rep.count("trees_checked", 1);
    }
    rep.count("routes_checked", res.routes.len() as u64);
    if res.routes.iter().any(|r| r.len() >= 2) || res.trees.iter().any(|t| t.len() >= 5) {
        rep.nontrivial(hash_str(&format!("{:?}|{}|{:?}|{reverse}|{:?}|{:?}", net.edges.len(), alg.name(), od, res.routes.iter().map(|r| route_ids(r)).collect::<Vec<_>>(), res.trees.iter().map(|t| t.len()).collect::<Vec<_>>())));
    }
    if all_ok && res.routes.iter().any(|r| r.len() >= 2) {
        rep.sample(|| json!({"algorithm": alg.name(), "orientation": orient, "direction": dirn, "od": format!("{:?}", od), "motifs": net.motifs, "vertices": net.nv(), "edges": net.ne(), "routes": res.routes.iter().map(|r| route_ids(r)).collect::<Vec<_>>(), "tree_sizes": res.trees.iter().map(|t| t.len()).collect::<Vec<_>>()}));
    }
}

fn case(tier: Tier, rng: &mut Rng, rep: &mut Report) {
    let mut p = world_params(tier);
    if tier.thorough && rng.chance(0.03) {
        p.net.min_v = 150;
        p.net.max_v = 400;
    }
    p.net.metric = rng.chance(0.7);
    p.net.colocated = rng.chance(0.1);
    let mut world = gen_world(rng, &p);
    // some edge-local restrictions so that frontier-filtered trees are covered too
    let mut query = json!({});
    if rng.chance(0.3) {
        let classes: Vec<u8> = (0..world.net.ne()).map(|_| rng.below(4) as u8).collect();
        world.frontier = FrontierCfg::RoadClass { classes, mapping: vec![] };
        let allowed: Vec<u8> = (0..4u8).filter(|_| rng.chance(0.75)).collect();
        query["road_classes"] = json!(allowed);
    }
    let mut qc = QueryCase { world, cut: vec![], query, alg: Alg::Dijkstra, od: Od::Vertex(0, None), reverse: false, via_files: rng.chance(0.2) };
    let si = match qc.build() {
        Ok(s) => s,
        Err(e) => {
            rep.inconclusive(format!("could not build a search instance: {e}"));
            return;
        }
    };
    for _ in 0..8 {
        qc.alg = gen_alg(rng, 0.35);
        let edge_oriented = rng.chance(0.35);
        let with_dest = qc.alg.is_ksp() || rng.chance(0.85);
        qc.od = if edge_oriented { gen_edge_od(rng, &qc.world.net, with_dest) } else { gen_vertex_od(rng, &qc.world.net, with_dest) };
        // the reverse direction is only defined for vertex-oriented plain searches
        qc.reverse = !edge_oriented && !qc.alg.is_ksp() && rng.chance(0.45);
        check_query(&qc, &si, rep);
        // the free-standing edge-oriented A* entry point (public, not used by SearchAlgorithm's own wrapper): its tree
        // follows the same conventions as the edge-oriented trees above
        if edge_oriented && !qc.alg.is_ksp() {
            if let Od::Edge(oe, de) = qc.od {
                use routee_compass_core::algorithm::search::a_star::a_star_algorithm::run_a_star_edge_oriented;
                use routee_compass_core::algorithm::search::direction::Direction;
                use routee_compass_core::model::network::EdgeId;
                use routee_compass_core::model::unit::Cost;
                let wf = match &qc.alg {
                    Alg::AStar(w) => w.map(Cost::new),
                    _ => Some(Cost::new(0.0)),
                };
                rep.eval();
                match crate::hooks::catch(|| run_a_star_edge_oriented(EdgeId(oe), de.map(EdgeId), &Direction::Forward, wf, &si)) {
                    Ok(Ok(r)) => {
                        let fails = crate::oracle::route::check_tree(&qc.world.net, &r.tree, qc.world.net.edges[oe].dst, false, Some(oe));
                        if let Some(f) = fails.first() {
                            let class = f.split_whitespace().next().unwrap_or("T?").to_string();
                            rep.violate(&format!("C01|run_a_star_edge_oriented|{class}|{}", if de.is_some() { "with-destination" } else { "tree-only" }), format!("{f} (origin edge {oe}, destination edge {de:?})"), || qc.to_json());
                        } else {
                            rep.count("free_standing_edge_oriented_trees_confirmed", 1);
                        }
                    }
                    Ok(Err(_)) => rep.count("free_standing_edge_oriented_errors_(reachability_is_C05)", 1),
                    Err(pm) => rep.violate(&format!("C01|run_a_star_edge_oriented|{}", crate::hooks::panic_sig(&pm)), pm, || qc.to_json()),
                }
            }
        }
    }
    for m in &qc.world.net.motifs {
        rep.seen("motifs", m.clone());
    }
}

/// directed cases (committed inputs of known findings and regressions) are run first, every time
pub fn run_directed(property: &str, rep: &mut Report, f: impl Fn(&QueryCase, &SearchInstance, &mut Report)) {
    for (sig, qc) in load_directed(&crate::root(), property) {
        match qc.build() {
            Ok(si) => {
                f(&qc, &si, rep);
                rep.count("directed_cases", 1);
            }
            Err(e) => rep.inconclusive(format!("directed case for {sig} could not be built: {e}")),
        }
    }
}

pub fn run(tier: Tier, seed: u64) -> MonOut {
    let n = tier.n(12_000, 400_000);
    let mut rep = par_cases(seed, n, |_i, rng, rep| case(tier, rng, rep));
    let mut d = Report::new();
    run_directed("C01", &mut d, check_query);
    rep.merge(d);
    MonOut {
        report: rep,
        rule: "generated networks (2..26 vertices quick, up to 60 and occasionally 150..400 thorough; motifs random/grid/ring/chain/hub/u-turn/parallel/self-loop/blocks/bridges, metric or arbitrary lengths, occasionally co-located) x 8 queries each: Dijkstra, A* (weight factor none/0/0.5/1/1.5/5), single-via and Yen (k 1..4, every similarity and termination setting) x vertex or edge orientation x forward/reverse (reverse only for vertex-oriented plain searches) x with/without destination, distance or speed traversal, turn delays, per-edge surcharges, road-class restrictions. every returned route gets R1..R5, every returned tree T1..T3 against the generator's edge list. non-trivial = route of >= 2 edges or tree of >= 5 entries; distinct by (network size, algorithm family, od, direction, route)".into(),
        assumptions: vec![
            "edge-oriented R3 is read in its weakest form: the first edge is the origin edge or leaves its source vertex; the last edge is the destination edge or enters its end vertex".into(),
            "a reverse-direction result lists the edge next to the search source first; contiguity is checked in travel order".into(),
            "reverse direction combined with edge orientation or with a k-shortest-path algorithm has no defined meaning in the code and is not driven".into(),
            "calls that exceed the logical step budget or panic are counted here and decided by C13 / C12".into(),
        ],
        floor: 300,
        exhaustive: false,
        explanation: "sampled networks and queries; structural oracle over the generator's own edge list".into(),
    }
}

//! C09 — unit conversions are linear, invertible and physically correct.
use super::{MonOut, Tier};
use crate::oracle::units as U;
use crate::oracle::units::rel_close;
use crate::par::par_cases;
use crate::report::Report;
use crate::rng::{hash_str, Rng};
use routee_compass_core::model::unit::as_f64::AsF64;
use routee_compass_core::model::unit::*;
use serde_json::json;

fn mags(rng: &mut Rng, n: usize) -> Vec<f64> {
    let mut v = vec![0.0, 1.0, -1.0, 1e-6, 1e9, -1e9, 12345.678];
    for _ in 0..n {
        let m = rng.log_uniform(1e-6, 1e9);
        v.push(if rng.chance(0.3) { -m } else { m });
    }
    v
}

fn bucket(x: f64) -> String {
    if x == 0.0 {
        "0".into()
    } else {
        format!("{}{}", if x < 0.0 { "-" } else { "+" }, x.abs().log10().floor() as i64)
    }
}

/// generic checks U1..U4 for one family. `conv(from_idx, to_idx, x)`; `si[i]` physical factor (None: no physical oracle)
#[allow(clippy::too_many_arguments)]
fn family(
    rep: &mut Report,
    rng: &mut Rng,
    fam: &str,
    names: &[String],
    si: Option<&[f64]>,
    conv: &dyn Fn(usize, usize, f64) -> f64,
    nmag: usize,
) {
    let n = names.len();
    for a in 0..n {
        for b in 0..n {
            let xs = mags(rng, nmag);
            for &x in &xs {
                rep.eval();
                let y = conv(a, b, x);
                let replay = || json!({"family": fam, "from": names[a], "to": names[b], "x": x, "y": y});
                if a == b {
                    if y.to_bits() != x.to_bits() {
                        rep.violate(&format!("C09|{fam}::convert|identity-not-exact"), format!("U1 {fam} {}->{} of {x} gave {y}", names[a], names[b]), replay);
                    }
                    continue;
                }
                if x != 0.0 {
                    rep.nontrivial(hash_str(&format!("{fam}|{a}|{b}|{}", bucket(x))));
                }
                if !y.is_finite() {
                    rep.violate(&format!("C09|{fam}::convert|non-finite"), format!("{fam} {}->{} of {x} gave {y}", names[a], names[b]), replay);
                    continue;
                }
                // U2 linearity
                let x2 = rng.log_uniform(1e-6, 1e9) * if rng.chance(0.5) { -1.0 } else { 1.0 };
                let c = rng.log_uniform(1e-3, 1e3);
                let add = conv(a, b, x + x2);
                let sum = y + conv(a, b, x2);
                let scale_tol = 1e-12 * (y.abs() + conv(a, b, x2).abs());
                if (add - sum).abs() > scale_tol + 1e-300 {
                    rep.violate(&format!("C09|{fam}::convert|not-additive"), format!("U2 {fam} {}->{}: f({x}+{x2})={add} but f(x)+f(y)={sum}", names[a], names[b]), replay);
                }
                let hom = conv(a, b, c * x);
                if !rel_close(hom, c * y, 1e-12, 1e-300) {
                    rep.violate(&format!("C09|{fam}::convert|not-homogeneous"), format!("U2 {fam} {}->{}: f({c}*{x})={hom} but c*f(x)={}", names[a], names[b], c * y), replay);
                }
                // U3 round trip
                let back = conv(b, a, y);
                if !rel_close(back, x, 1e-3, 0.0) {
                    rep.violate(
                        &format!("C09|{fam}::convert|round-trip>0.1%|{}<->{}", names[a.min(b)], names[a.max(b)]),
                        format!("U3 {fam} {}->{}->{}: {x} came back as {back}", names[a], names[b], names[a]),
                        replay,
                    );
                }
                // U4 physical factor
                if let Some(si) = si {
                    let expect = x * si[a] / si[b];
                    if !rel_close(y, expect, 1e-3, 0.0) {
                        rep.violate(
                            &format!("C09|{fam}::convert|factor-off>0.1%|{}->{}", names[a], names[b]),
                            format!("U4 {fam} {}->{} of {x} gave {y}, physical value {expect}", names[a], names[b]),
                            replay,
                        );
                    }
                }
            }
            rep.sample(|| json!({"family": fam, "from": names[a], "to": names[b], "x": xs[6], "converted": conv(a, b, xs[6])}));
        }
    }
}

pub fn run(tier: Tier, seed: u64) -> MonOut {
    let nmag = tier.n(5_000, 200_000);
    let ntrip = tier.n(1_000, 40_000);
    // one case per family + constructor groups so that they run in parallel
    let rep = par_cases(seed, 10, |case, rng, rep| match case {
        0 => {
            let names: Vec<String> = U::DISTANCE_UNITS.iter().map(|u| u.to_string()).collect();
            let si: Vec<f64> = U::DISTANCE_UNITS.iter().map(|u| U::dist_si(*u)).collect();
            family(rep, rng, "distance", &names, Some(&si), &|a, b, x| U::DISTANCE_UNITS[a].convert(&Distance::new(x), &U::DISTANCE_UNITS[b]).as_f64(), nmag);
        }
        1 => {
            let names: Vec<String> = U::TIME_UNITS.iter().map(|u| u.to_string()).collect();
            let si: Vec<f64> = U::TIME_UNITS.iter().map(|u| U::time_si(*u)).collect();
            family(rep, rng, "time", &names, Some(&si), &|a, b, x| U::TIME_UNITS[a].convert(&Time::new(x), &U::TIME_UNITS[b]).as_f64(), nmag);
        }
        2 => {
            let names: Vec<String> = U::SPEED_UNITS.iter().map(|u| u.to_string()).collect();
            let si: Vec<f64> = U::SPEED_UNITS.iter().map(|u| U::speed_si(*u)).collect();
            family(rep, rng, "speed", &names, Some(&si), &|a, b, x| U::SPEED_UNITS[a].convert(&Speed::new(x), &U::SPEED_UNITS[b]).as_f64(), nmag);
        }
        3 => {
            let names: Vec<String> = U::ENERGY_UNITS.iter().map(|u| u.to_string()).collect();
            family(rep, rng, "energy", &names, None, &|a, b, x| U::ENERGY_UNITS[a].convert(&Energy::new(x), &U::ENERGY_UNITS[b]).as_f64(), nmag);
        }
        4 => {
            let names: Vec<String> = U::GRADE_UNITS.iter().map(|u| u.to_string()).collect();
            let si: Vec<f64> = U::GRADE_UNITS.iter().map(|u| U::grade_si(*u)).collect();
            family(rep, rng, "grade", &names, Some(&si), &|a, b, x| U::GRADE_UNITS[a].convert(&Grade::new(x), &U::GRADE_UNITS[b]).as_f64(), nmag);
        }
        5 => {
            let names: Vec<String> = U::WEIGHT_UNITS.iter().map(|u| u.to_string()).collect();
            let si: Vec<f64> = U::WEIGHT_UNITS.iter().map(|u| U::weight_si(*u)).collect();
            family(rep, rng, "weight", &names, Some(&si), &|a, b, x| U::WEIGHT_UNITS[a].convert(&Weight::new(x), &U::WEIGHT_UNITS[b]).as_f64(), nmag);
        }
        6 => {
            // U5/U6 Time::create over all 3*5*4 unit triples
            for su in U::SPEED_UNITS {
                for du in U::DISTANCE_UNITS {
                    for tu in U::TIME_UNITS {
                        for i in 0..ntrip {
                            rep.eval();
                            let s = rng.log_uniform(0.1, 300.0);
                            let d = rng.log_uniform(1e-3, 1e6);
                            let r = Time::create(&Speed::new(s), &su, &Distance::new(d), &du, &tu);
                            let expect = d * U::dist_si(du) / (s * U::speed_si(su)) / U::time_si(tu);
                            let replay = || json!({"ctor":"Time::create","speed":s,"speed_unit":su.to_string(),"distance":d,"distance_unit":du.to_string(),"time_unit":tu.to_string()});
                            rep.nontrivial(hash_str(&format!("tc|{su}|{du}|{tu}|{}", i % 8)));
                            match r {
                                Ok(t) => {
                                    if !rel_close(t.as_f64(), expect, 1e-3, 0.0) {
                                        rep.violate(&format!("C09|Time::create|value-off>0.1%|{su},{du},{tu}"), format!("U5 Time::create gave {} expected {expect}", t.as_f64()), replay);
                                    }
                                }
                                Err(e) => rep.violate("C09|Time::create|error-on-positive-input", format!("U5 Time::create failed on positive inputs: {e}"), replay),
                            }
                            if i < 6 {
                                // U6 rejections
                                let bad: [(f64, f64); 6] = [(0.0, d), (-s, d), (s, 0.0), (s, -d), (0.0, 0.0), (-s, -d)];
                                let (bs, bd) = bad[i];
                                rep.eval();
                                if let Ok(t) = Time::create(&Speed::new(bs), &su, &Distance::new(bd), &du, &tu) {
                                    rep.violate("C09|Time::create|accepts-non-positive", format!("U6 Time::create(speed={bs}, distance={bd}) returned {}", t.as_f64()), || json!({"speed":bs,"distance":bd,"speed_unit":su.to_string(),"distance_unit":du.to_string(),"time_unit":tu.to_string()}));
                                }
                                rep.count("rejections_checked", 1);
                            }
                        }
                        rep.sample(|| json!({"ctor":"Time::create","units":[su.to_string(),du.to_string(),tu.to_string()]}));
                    }
                }
            }
        }
        7 => {
            // Speed::create over all 4*5*3 triples
            for tu in U::TIME_UNITS {
                for du in U::DISTANCE_UNITS {
                    for su in U::SPEED_UNITS {
                        for i in 0..ntrip {
                            rep.eval();
                            let t = rng.log_uniform(1e-3, 1e5);
                            let d = rng.log_uniform(1e-3, 1e6);
                            let r = Speed::create(&Time::new(t), &tu, &Distance::new(d), &du, &su);
                            let expect = d * U::dist_si(du) / (t * U::time_si(tu)) / U::speed_si(su);
                            let replay = || json!({"ctor":"Speed::create","time":t,"time_unit":tu.to_string(),"distance":d,"distance_unit":du.to_string(),"speed_unit":su.to_string()});
                            rep.nontrivial(hash_str(&format!("sc|{su}|{du}|{tu}|{}", i % 8)));
                            match r {
                                Ok(s) => {
                                    if !rel_close(s.as_f64(), expect, 1e-3, 0.0) {
                                        rep.violate(&format!("C09|Speed::create|value-off>0.1%|{tu},{du},{su}"), format!("U5 Speed::create gave {} expected {expect}", s.as_f64()), replay);
                                    }
                                }
                                Err(e) => rep.violate("C09|Speed::create|error-on-positive-input", format!("U5 Speed::create failed on positive inputs: {e}"), replay),
                            }
                            if i < 2 {
                                let bt = if i == 0 { 0.0 } else { -t };
                                rep.eval();
                                if let Ok(s) = Speed::create(&Time::new(bt), &tu, &Distance::new(d), &du, &su) {
                                    rep.violate("C09|Speed::create|accepts-non-positive-time", format!("U6 Speed::create(time={bt}) returned {}", s.as_f64()), || json!({"time":bt,"distance":d}));
                                }
                                rep.count("rejections_checked", 1);
                            }
                        }
                    }
                }
            }
        }
        8 => {
            // Energy::create: 5 rate units x 5 distance units
            for ru in U::ENERGY_RATE_UNITS {
                for du in U::DISTANCE_UNITS {
                    for i in 0..ntrip {
                        rep.eval();
                        let rate = rng.log_uniform(1e-4, 10.0) * if rng.chance(0.2) { -1.0 } else { 1.0 };
                        let d = rng.log_uniform(1e-3, 1e6);
                        let r = Energy::create(&EnergyRate::new(rate), &ru, &Distance::new(d), &du);
                        let rdu = match ru {
                            EnergyRateUnit::KilowattHoursPerKilometer => DistanceUnit::Kilometers,
                            EnergyRateUnit::KilowattHoursPerMeter => DistanceUnit::Meters,
                            _ => DistanceUnit::Miles,
                        };
                        let eu = match ru {
                            EnergyRateUnit::GallonsGasolinePerMile => EnergyUnit::GallonsGasoline,
                            EnergyRateUnit::GallonsDieselPerMile => EnergyUnit::GallonsDiesel,
                            _ => EnergyUnit::KilowattHours,
                        };
                        let expect = rate * d * U::dist_si(du) / U::dist_si(rdu);
                        let replay = || json!({"ctor":"Energy::create","rate":rate,"rate_unit":ru.to_string(),"distance":d,"distance_unit":du.to_string()});
                        rep.nontrivial(hash_str(&format!("ec|{ru}|{du}|{}", i % 8)));
                        match r {
                            Ok((e, u)) => {
                                if u != eu {
                                    rep.violate("C09|Energy::create|wrong-energy-unit", format!("U5 Energy::create for {ru} returned unit {u}"), replay);
                                } else if !rel_close(e.as_f64(), expect, 1e-3, 0.0) {
                                    rep.violate(&format!("C09|Energy::create|value-off>0.1%|{ru},{du}"), format!("U5 Energy::create gave {} expected {expect}", e.as_f64()), replay);
                                }
                            }
                            Err(e) => rep.violate("C09|Energy::create|error", format!("U5 Energy::create failed: {e}"), replay),
                        }
                    }
                    rep.sample(|| json!({"ctor":"Energy::create","units":[ru.to_string(),du.to_string()]}));
                }
            }
        }
        _ => {
            // associated units of speed / energy-rate units agree with their names
            for su in U::SPEED_UNITS {
                rep.eval();
                let du = su.associated_distance_unit();
                let tu = su.associated_time_unit();
                let phys = U::dist_si(du) / U::time_si(tu);
                if !rel_close(phys, U::speed_si(su), 1e-9, 0.0) {
                    rep.violate("C09|SpeedUnit::associated|inconsistent", format!("{su} is associated with {du}/{tu}"), || json!({"speed_unit": su.to_string()}));
                }
            }
        }
    });
    MonOut {
        report: rep,
        rule: "every ordered pair of units of all six families (77 pairs, run completely) x fixed + log-uniform magnitudes of both signs and 0; every unit triple accepted by Time::create (60), Speed::create (60), Energy::create (25) x random positive magnitudes plus the non-positive rejections. non-trivial = from != to and x != 0; distinct by (family, from, to, sign, decade of |x|) resp. (constructor, unit triple, slot)".into(),
        assumptions: vec![
            "physical factors: inch 0.0254 m, foot 0.3048 m, mile 1609.344 m, lb 0.45359237 kg, ton = 2000 lb, mph 0.44704 m/s".into(),
            "energy units have no physical oracle (gasoline/diesel gallon equivalents are conventions): only identity, linearity and round trip are checked".into(),
            "tolerances: identity bit-exact, linearity 1e-12 relative, round trip and physical factor 0.1 % as granted by the property".into(),
        ],
        floor: 300,
        exhaustive: true,
        explanation: "the unit-pair and unit-triple dimensions are enumerated completely; magnitudes are sampled".into(),
    }
}

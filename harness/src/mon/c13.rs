//! C13 — k-shortest-paths returns up to k valid, distinct routes, best first, and ends.
use super::c03::check_accumulation;
use super::{MonOut, Tier};
use crate::hooks::Caught;
use crate::oracle::graph::{dijkstra, reachable};
use crate::oracle::route::{check_route, repeats_vertex, route_ids, Od};
use crate::oracle::units::rel_close;
use crate::par::par_cases;
use crate::report::Report;
use crate::rng::{hash_str, Rng};
use crate::run::{err_class, gen_kterm, gen_sim, run_search, step_budget, Alg, KTerm, Sim};
use crate::searchcase::{independent_edge_costs, route_cost};
use crate::world::{gen_world, WorldParams};
use crate::worldjson::QueryCase;
use routee_compass_core::algorithm::search::search_error::SearchError;
use routee_compass_core::algorithm::search::search_instance::SearchInstance;
use serde_json::json;
use std::collections::HashMap;

fn cosine(a: &[usize], b: &[usize], w: &dyn Fn(usize) -> f64) -> f64 {
    let ma: HashMap<usize, f64> = a.iter().map(|e| (*e, w(*e))).collect();
    let mb: HashMap<usize, f64> = b.iter().map(|e| (*e, w(*e))).collect();
    let num: f64 = ma.iter().filter_map(|(e, x)| mb.get(e).map(|y| x * y)).sum();
    let da: f64 = ma.values().map(|x| x * x).sum::<f64>().sqrt();
    let db: f64 = mb.values().map(|x| x * x).sum::<f64>().sqrt();
    num / (da * db)
}

fn with_sim(alg: &Alg, s: Sim) -> Alg {
    match alg {
        Alg::SingleVia { k, under, term, .. } => Alg::SingleVia { k: *k, under: under.clone(), sim: s, term: term.clone() },
        Alg::Yens { k, under, term, .. } => Alg::Yens { k: *k, under: under.clone(), sim: s, term: term.clone() },
        other => other.clone(),
    }
}

fn underlying_admissible(alg: &Alg, metric: bool) -> bool {
    let u = match alg {
        Alg::SingleVia { under, .. } | Alg::Yens { under, .. } => under.as_ref(),
        other => other,
    };
    match u {
        Alg::Dijkstra => true,
        Alg::AStar(Some(w)) => *w == 0.0 || (metric && *w <= 1.0),
        Alg::AStar(None) => metric,
        _ => false,
    }
}

pub fn check_query(qc: &QueryCase, si: &SearchInstance, rep: &mut Report) {
    rep.eval();
    let world = &qc.world;
    let net = &world.net;
    let (alg, od) = (&qc.alg, qc.od);
    let fam = alg.family();
    let (sim, k_cfg) = match alg {
        Alg::SingleVia { sim, k, .. } | Alg::Yens { sim, k, .. } => (sim.clone(), *k),
        _ => return,
    };
    // k may be overridden by the query
    let k = qc.query.get("k").and_then(|v| v.as_u64()).map(|v| v as usize).unwrap_or(k_cfg);
    let orient = qc.orient();
    let replay = || qc.to_json();
    // travel endpoints of the vertex search
    let (o, d, adjacent) = match od {
        Od::Vertex(s, Some(t)) => (s, t, false),
        Od::Edge(oe, Some(de)) => (net.edges[oe].dst, net.edges[de].src, net.edges[oe].dst == net.edges[de].src),
        _ => return,
    };
    let same_edge = matches!(od, Od::Edge(a, Some(b)) if a == b);
    if adjacent || o == d || same_edge {
        rep.count("degenerate_queries_skipped", 1);
        return;
    }
    // edge-local restrictions of the world (road classes, vehicle restrictions), read by the oracle from the raw
    // configuration and the query
    let allowed = crate::restrict::oracle_allowed(&world.frontier, &qc.query, net.ne()).unwrap_or_else(|| vec![true; net.ne()]);
    let restricted = allowed.iter().any(|a| !a);
    let is_reachable = reachable(net, &allowed, o, true)[d];
    let budget = step_budget(net.nv(), net.ne(), k.max(1));
    let (out, ctx) = run_search(alg, si, od, false, &qc.query, budget, true);
    let reopened = crate::searchcase::had_reopen(&ctx.events);
    let res = match out {
        Err(Caught::Budget(b)) => {
            // Y7
            let which = if b.last.contains("KspOuter") { "unbounded-outer-loop" } else if b.last.contains("KspInner") { "unbounded-inner-loop" } else { "step-budget-exceeded" };
            rep.violate(&format!("C13|{fam}|{which}"), format!("Y7 logical budget exceeded after {} turns (limit {}); last event {}", b.steps, b.limit, b.last), replay);
            return;
        }
        Err(Caught::Panic(m)) => {
            rep.violate(&format!("C13|{fam}|{}", crate::hooks::panic_sig(&m)), format!("Y7 panicked: {m}"), replay);
            return;
        }
        Ok(Err(e)) => {
            if is_reachable {
                // Y8 an answerable query must not become an error
                rep.violate(&format!("C13|{fam}|answerable-query-error|{}", err_class(&e)), format!("Y8 destination reachable (k={k}) but the call failed: {e}"), replay);
            } else {
                let ok = matches!(e, SearchError::NoPathExistsBetweenVertices(_, _) | SearchError::NoPathExistsBetweenEdges(_, _));
                if !ok {
                    rep.violate(&format!("C13|{fam}|wrong-error-for-unreachable|{}", err_class(&e)), format!("Y8 unreachable destination reported as: {e}"), replay);
                } else {
                    rep.count("unreachable_confirmed", 1);
                }
            }
            return;
        }
        Ok(Ok(r)) => r,
    };
    if !is_reachable {
        rep.violate(&format!("C13|{fam}|ok-for-unreachable"), "Y8 unreachable destination but Ok was returned".into(), replay);
        return;
    }
    let routes: Vec<Vec<usize>> = res.routes.iter().map(|r| route_ids(r)).collect();
    // the searched part (without origin / destination edges of edge-oriented queries)
    let mids: Vec<Vec<usize>> = routes
        .iter()
        .map(|ids| match od {
            Od::Edge(oe, Some(de)) if ids.len() >= 2 && ids[0] == oe && *ids.last().unwrap() == de => ids[1..ids.len() - 1].to_vec(),
            _ => ids.clone(),
        })
        .collect();
    let mut clean = true;
    // Y1 count
    if k >= 1 && (routes.is_empty() || routes.len() > k) {
        let class = if routes.is_empty() { "no-route-for-reachable" } else { "more-than-k-routes" };
        rep.violate(&format!("C13|{fam}|{class}"), format!("Y1 {} routes returned for k={k}: {routes:?}", routes.len()), replay);
        clean = false;
    }
    // Y2 first is least cost (state-independent costs, admissible underlying search)
    if let (Some(first), true) = (res.routes.first(), underlying_admissible(alg, net.metric) && matches!(world.access, crate::world::AccessCfg::None)) {
        if let Ok(Some(cost)) = independent_edge_costs(world, si) {
            let ref_min = dijkstra(net, &cost, &allowed, o, true)[d];
            let reported: f64 = match od {
                Od::Edge(..) if first.len() >= 2 => route_cost(&first[1..first.len() - 1]),
                _ => route_cost(first),
            };
            if !rel_close(reported, ref_min, 1e-9, 1e-12) {
                rep.violate(&format!("C13|{fam}|first-route-not-least-cost"), format!("Y2 first route {:?} costs {reported}, minimum is {ref_min}", routes[0]), replay);
                clean = false;
            }
            rep.count("first_route_optimality_checked", 1);
        }
    }
    // Y3 every route valid, loop-free, correctly accumulated
    for (ri, ids) in routes.iter().enumerate() {
        let fails = check_route(net, ids, od, false);
        if let Some(f) = fails.first() {
            let clause = f.split(' ').next().unwrap_or("R?");
            rep.violate(&format!("C13|{fam}|route-invalid|{clause}"), format!("Y3 route {ri} {ids:?}: {}", fails.join("; ")), replay);
            clean = false;
            continue;
        }
        // a valid route keeps to the edges the query's restrictions permit, whichever search found it
        if let Some(e) = mids[ri].iter().find(|e| !allowed[**e]) {
            rep.violate(&format!("C13|{fam}|route-uses-forbidden-edge"), format!("Y3 route {ri} {ids:?} uses edge {e}, which the restrictions of the query forbid"), replay);
            clean = false;
            continue;
        }
        if restricted {
            rep.count("routes_checked_against_edge_restrictions", 1);
        }
        if repeats_vertex(net, &mids[ri]) {
            rep.violate(&format!("C13|{fam}|route-not-loop-free"), format!("Y3 route {ri} {ids:?} visits a vertex twice"), replay);
            clean = false;
            continue;
        }
        if let Err(a) = check_accumulation(world, &res.routes[ri], false, od) {
            let sig = if reopened {
                "C13|run_a_star|stale-state-after-reopened-vertex".to_string()
            } else if fam == "yens" && ri > 0 {
                "C13|yens|alternative-route-state-not-accumulated".to_string()
            } else {
                format!("C13|{fam}|route-state-wrong|{}", a.clause)
            };
            rep.violate(&sig, format!("Y3 route {ri} {ids:?}: {}", a.detail), replay);
            clean = false;
        }
    }
    // Y4 pairwise distinct
    'outer: for i in 0..routes.len() {
        for j in i + 1..routes.len() {
            if routes[i] == routes[j] {
                rep.violate(&format!("C13|{fam}|duplicate-route"), format!("Y4 routes {i} and {j} are the same edge sequence {:?}", routes[i]), replay);
                clean = false;
                break 'outer;
            }
        }
    }
    // Y5 no pair more similar than the threshold
    let thr = match &sim {
        Sim::EdgeIdCosine(t) => Some((*t, false)),
        Sim::DistanceCosine(t) => Some((*t, true)),
        _ => None,
    };
    if let Some((t, weighted)) = thr {
        'p: for i in 0..routes.len() {
            for j in i + 1..routes.len() {
                if routes[i] == routes[j] {
                    continue;
                }
                // similarity of the searched part: the origin / destination edges that an edge-oriented
                // query adds to every route are not alternatives
                let s = if weighted { cosine(&mids[i], &mids[j], &|e| net.edges[e].len_m) } else { cosine(&mids[i], &mids[j], &|_| 1.0) };
                if s >= t + 1e-12 {
                    rep.violate(&format!("C13|{fam}|pair-more-similar-than-threshold"), format!("Y5 routes {i} and {j} have similarity {s} >= threshold {t}"), replay);
                    clean = false;
                    break 'p;
                }
            }
        }
        // Y6 accept-all returns at least as many routes as any threshold
        let aa = with_sim(alg, if ctx.n_searches % 2 == 0 { Sim::AcceptAll } else { Sim::Default });
        let (out2, _) = run_search(&aa, si, od, false, &qc.query, budget, false);
        if let Ok(Ok(r2)) = out2 {
            if r2.routes.len() < routes.len().min(k) {
                rep.violate(&format!("C13|{fam}|accept-all-returns-fewer-than-threshold"), format!("Y6 accept-all returned {} routes, similarity threshold {t} returned {}", r2.routes.len(), routes.len()), replay);
                clean = false;
            }
            rep.count("accept_all_comparisons", 1);
        }
    }
    rep.count("routes_checked", routes.len() as u64);
    rep.max("max_routes_returned", routes.len() as u64);
    rep.seen("configurations", format!("{fam}|{orient}|{}", match &sim { Sim::Default => "default", Sim::AcceptAll => "accept_all", Sim::EdgeIdCosine(_) => "edge_id_cosine", Sim::DistanceCosine(_) => "distance_cosine" }));
    rep.seen("first_route_lengths", mids.first().map(|m| m.len().min(6)).unwrap_or(0).to_string());
    // non-trivial: at least two distinct simple o-d paths exist
    if routes.len() >= 2 || crate::oracle::graph::has_costlier_alternative(net, &vec![1.0; net.ne()], &allowed, o, d) {
        rep.nontrivial(hash_str(&format!("{}|{}|{:?}|{:?}", net.ne(), alg.name(), od, routes)));
        if clean && routes.len() >= 2 {
            rep.sample(|| json!({"algorithm": alg.name(), "orientation": orient, "k": k, "od": format!("{:?}", od), "routes": routes, "vertices": net.nv(), "edges": net.ne()}));
        }
    }
}

fn case(tier: Tier, rng: &mut Rng, rep: &mut Report) {
    let mut p = WorldParams::default();
    p.net.max_v = if tier.thorough { 40 } else { 18 };
    p.net.metric = rng.chance(0.7);
    p.net.p_blocks = 0.15;
    // a quarter of the worlds charge turn delays: "least cost" (Y2) is then not decided here (the cost of an edge depends
    // on the edge before it), every other clause is - in particular the accumulated state of every alternative
    p.allow_turn_delay = rng.chance(0.25);
    p.mixed_units = false;
    p.surcharges = rng.chance(0.3);
    let mut world = gen_world(rng, &p);
    // one world in five restricts edges (road classes, vehicle restrictions, both): the alternatives must keep to the
    // permitted edges like the first route. drawn from a forked stream so that the other cases stay what they were
    let mut rr = rng.fork(0xC13F);
    let mut base_fields = serde_json::Map::new();
    if rr.chance(0.2) {
        let r = crate::restrict::gen_edge_local(&mut rr, &world.net);
        world.frontier = r.cfg.clone();
        base_fields = r.query_fields.clone();
    }
    let mut qc = QueryCase { world, cut: vec![], query: serde_json::Value::Object(base_fields.clone()), alg: Alg::Dijkstra, od: Od::Vertex(0, None), reverse: false, via_files: rng.chance(0.2) };
    let si = match qc.build() {
        Ok(s) => s,
        Err(e) => {
            rep.inconclusive(format!("could not build a search instance: {e}"));
            return;
        }
    };
    for _ in 0..6 {
        let k = rng.urange(1, 6);
        let under = Box::new(match rng.below(4) {
            0 => Alg::Dijkstra,
            1 => Alg::AStar(None),
            2 => Alg::AStar(Some(1.0)),
            _ => Alg::AStar(Some(*rng.pick(&[0.0, 0.5, 1.5]))),
        });
        let sim = gen_sim(rng);
        let term = gen_kterm(rng, k);
        qc.alg = if rng.chance(0.6) { Alg::SingleVia { k, under, sim, term } } else { Alg::Yens { k, under, sim, term } };
        // k sometimes comes from the query instead of the configuration
        let mut fields = base_fields.clone();
        if rng.chance(0.3) {
            fields.insert("k".into(), json!(rng.urange(1, 6)));
        }
        qc.query = serde_json::Value::Object(fields);
        let edge_oriented = rng.chance(0.25);
        qc.od = if edge_oriented { crate::searchcase::gen_edge_od(rng, &qc.world.net, true) } else { crate::searchcase::gen_vertex_od(rng, &qc.world.net, true) };
        check_query(&qc, &si, rep);
    }
    let _ = KTerm::Default;
}

pub fn run(tier: Tier, seed: u64) -> MonOut {
    let n = tier.n(25_000, 800_000);
    let mut rep = par_cases(seed, n, |_i, rng, rep| case(tier, rng, rep));
    let mut d = Report::new();
    super::c01::run_directed("C13", &mut d, check_query);
    rep.merge(d);
    MonOut {
        report: rep,
        rule: "generated networks rich in alternatives (grids, rings, parallel edges, hubs) and poor ones (chains, trees, single paths) x 6 k-shortest-path calls each: single-via or Yen, k 1..6 from the configuration or from the query, underlying Dijkstra / A* (weight factor none/1/0/0.5/1.5), similarity default / accept-all / edge-id cosine / distance-weighted cosine at thresholds 0.1..0.99, termination default / exact / max-iteration / factor, vertex or edge oriented; every call under the logical loop budgets (KspOuter, KspInner, LoopTop hook events). oracle: reference reachability and least cost, C01 walk checker, vertex-repeat test, C03 accumulation checker, pairwise identity and independently computed cosine similarity, and a second run with accept-all for the count comparison. non-trivial = >= 2 routes returned or a costlier alternative path exists; distinct by (network, configuration, od, routes)".into(),
        assumptions: vec![
            "state units equal to model units; three quarters of the worlds have no access model so that 'least cost' is well defined (Y2 is decided only there); the rest charge turn delays and get every clause except Y2".into(),
            "first-route optimality only when the underlying search is Dijkstra or A* with weight factor <= 1 on a metric network".into(),
            "a correct outer loop turns at most k times (Yen) or once per intersection vertex (single-via); budgets are 4x..8x those bounds".into(),
        ],
        floor: 300,
        exhaustive: false,
        explanation: "sampled networks and k-shortest-path configurations; each call fully checked".into(),
    }
}

//! C03 — reported state and costs along a route are the true sums over its edges (core level).
use super::c01::gen_alg;
use super::{MonOut, Tier};
use crate::hooks::Caught;
use crate::oracle::route::{route_ids, Od};
use crate::oracle::units::rel_close;
use crate::par::par_cases;
use crate::report::Report;
use crate::rng::{hash_str, Rng};
use crate::run::{run_search, step_budget, Alg};
use crate::searchcase::{gen_edge_od, gen_vertex_od, had_reopen};
use crate::world::{gen_world, rate_value, AccessCfg, World, WorldParams};
use routee_compass_core::algorithm::search::edge_traversal::EdgeTraversal;
use routee_compass_core::model::unit::as_f64::AsF64;
use crate::appgen::{build_app, AppSpec, OutputPlugin};
use crate::hooks::catch;
use crate::oracle::units as U;
use routee_compass_core::model::cost::vehicle::vehicle_cost_rate::VehicleCostRate;
use routee_compass_core::model::network::edge_id::EdgeId;
use routee_compass_core::model::traversal::state::state_variable::StateVar;
use routee_compass_core::model::unit::Cost;
use serde_json::{json, Value};
use crate::worldjson::QueryCase;
use routee_compass_core::algorithm::search::search_instance::SearchInstance;

pub struct Accum {
    pub clause: String,
    pub detail: String,
}

/// check one route in *list order* (the order in which the search accumulated it).
/// `reverse`: the list was accumulated by a reverse search (turns are list[i] -> list[i-1]).
/// `od`: to recognise the zero-cost origin / destination edges of edge-oriented results.
pub fn check_accumulation(world: &World, route: &[EdgeTraversal], reverse: bool, od: Od) -> Result<(usize, usize), Accum> {
    let tol = 1e-3;
    let has_time = world.uses_time();
    let mut dist = world.state.dist_init;
    let mut time = world.state.time_init;
    let mut prev_state: Vec<f64> = {
        let mut v = vec![world.state.dist_init];
        if has_time {
            v.push(world.state.time_init);
        }
        v
    };
    let names: Vec<&str> = if has_time { vec!["distance", "time"] } else { vec!["distance"] };
    let mut turns = 0usize;
    let mut real_turns = 0usize;
    let mut prev_counted_edge: Option<usize> = None;
    for (i, et) in route.iter().enumerate() {
        let e = et.edge_id.0;
        if e >= world.net.ne() {
            return Err(Accum { clause: "unknown-edge".into(), detail: format!("edge {e} does not exist") });
        }
        let st: Vec<f64> = et.result_state.iter().map(|s| s.0).collect();
        if st.len() != names.len() {
            return Err(Accum { clause: "state-length".into(), detail: format!("state has {} entries expected {}", st.len(), names.len()) });
        }
        // zero-cost origin / destination edges of edge-oriented results contribute nothing
        let is_terminal_edge = match od {
            Od::Edge(oe, de) => (i == 0 && e == oe) || (i + 1 == route.len() && Some(e) == de && route.len() > 1),
            _ => false,
        };
        let unchanged = st.iter().zip(&prev_state).all(|(a, b)| a == b);
        let zero_cost = et.access_cost.as_f64() == 0.0 && et.traversal_cost.as_f64() == 0.0;
        if is_terminal_edge && unchanged && (zero_cost || et.total_cost().as_f64() <= 1e-9) {
            continue;
        }
        // physical contribution of this edge
        let dd = world.phys_dist(e);
        dist += dd;
        if has_time {
            let mut dt = world.phys_time(e).unwrap_or(0.0);
            if let Some(pe) = prev_counted_edge {
                let (a, b) = if reverse { (e, pe) } else { (pe, e) };
                if let Some(delay) = world.phys_delay(a, b) {
                    dt += delay;
                    turns += 1;
                    if world.turn_class(a, b) != Some(0) {
                        real_turns += 1;
                    }
                }
            }
            time += dt;
        }
        prev_counted_edge = Some(e);
        // S5 monotone
        if st[0] < prev_state[0] - 1e-9 * prev_state[0].abs() {
            return Err(Accum { clause: "S5-distance-decreases".into(), detail: format!("edge #{i} ({e}): distance {} after {}", st[0], prev_state[0]) });
        }
        if has_time && st[1] < prev_state[1] - 1e-9 * prev_state[1].abs() {
            return Err(Accum { clause: "S5-time-decreases".into(), detail: format!("edge #{i} ({e}): time {} after {}", st[1], prev_state[1]) });
        }
        // S1 distance (S6 at i = 0)
        if !rel_close(st[0], dist, tol, 1e-9) {
            let clause = if i == 0 { "S6-initial-distance" } else { "S1-distance-sum" };
            return Err(Accum { clause: clause.into(), detail: format!("edge #{i} ({e}): reported distance {} {}, true sum {dist} (off by {:.4} %)", st[0], world.state.dist_unit, 100.0 * (st[0] - dist) / dist) });
        }
        // S2 time
        if has_time && !rel_close(st[1], time, tol, 1e-9) {
            let clause = if i == 0 { "S6-initial-time" } else { "S2-time-sum" };
            return Err(Accum { clause: clause.into(), detail: format!("edge #{i} ({e}): reported time {} {}, true sum {time} (off by {:.4} %)", st[1], world.state.time_unit, 100.0 * (st[1] - time) / time) });
        }
        // S3 cost = weighted, rated change of state on this edge (+ per-edge surcharge)
        let mut c = 0.0;
        let mut mag = 0.0;
        for (k, n) in names.iter().enumerate() {
            let w = world.cost.weights.iter().find(|(x, _)| x == n).map(|(_, w)| *w).unwrap_or(0.0);
            let delta = st[k] - prev_state[k];
            let r = world.cost.vehicle_rates.iter().find(|(x, _)| x == n).map(|(_, r)| rate_value(r, delta)).unwrap_or(0.0);
            let sur: f64 = world.cost.edge_surcharge.iter().filter(|(x, _)| x == n).map(|(_, t)| t.get(&e).copied().unwrap_or(0.0)).sum();
            c += w * (r + sur);
            mag += (w * (r + sur)).abs();
        }
        let expect = if c <= 0.0 { 1e-10 } else { c };
        let got = et.total_cost().as_f64();
        if !rel_close(got, expect, 1e-9, 1e-9 * mag) {
            return Err(Accum { clause: "S3-edge-cost".into(), detail: format!("edge #{i} ({e}): access {} + traversal {} = {got}, weighted rated state change is {expect}", et.access_cost.as_f64(), et.traversal_cost.as_f64()) });
        }
        prev_state = st;
    }
    Ok((turns, real_turns))
}

pub fn world_params(tier: Tier, rng: &mut Rng) -> WorldParams {
    let mut p = WorldParams::default();
    p.net.max_v = if tier.thorough { 50 } else { 24 };
    if rng.chance(0.15) {
        // longer routes
        p.net.min_v = 30;
        p.net.max_v = 90;
    }
    p.net.metric = rng.chance(0.6);
    p.allow_turn_delay = true;
    p.mixed_units = rng.chance(0.5);
    p.random_initials = true;
    p.surcharges = true;
    p
}

fn unit_mode(world: &World) -> &'static str {
    let mixed = match &world.trav {
        crate::world::TravCfg::Distance { unit } => *unit != world.state.dist_unit,
        crate::world::TravCfg::Speed { dist_unit, time_unit, .. } => *dist_unit != world.state.dist_unit || *time_unit != world.state.time_unit,
    } || match &world.access {
        AccessCfg::TurnDelay { unit, .. } => *unit != world.state.time_unit,
        _ => false,
    };
    if mixed { "mixed-units" } else { "same-units" }
}

pub fn check_query(qc: &QueryCase, si: &SearchInstance, rep: &mut Report) {
    rep.eval();
    let world = &qc.world;
    let net = &world.net;
    let (alg, od, reverse) = (&qc.alg, qc.od, qc.reverse);
    let units = unit_mode(world);
    let has_delay = matches!(world.access, AccessCfg::TurnDelay { .. });
    let (out, ctx) = run_search(alg, si, od, reverse, &qc.query, step_budget(net.nv(), net.ne(), qc.k()), true);
    let reopened = had_reopen(&ctx.events);
    if reopened {
        rep.count("searches_with_reopened_vertices", 1);
    }
    let res = match out {
        Err(Caught::Budget(_)) => {
            rep.count("budget_exceeded_(decided_by_C13)", 1);
            return;
        }
        Err(Caught::Panic(_)) => {
            rep.count("panics_(decided_by_C12/C13)", 1);
            return;
        }
        Ok(Err(_)) => {
            rep.count("search_errors", 1);
            return;
        }
        Ok(Ok(r)) => r,
    };
    let (orient, dirn) = (qc.orient(), qc.dirn());
    for (ri, route) in res.routes.iter().enumerate() {
        let ids = route_ids(route);
        rep.count("routes_checked", 1);
        rep.max("max_route_edges", ids.len() as u64);
        match check_accumulation(world, route, reverse, od) {
            Err(a) => {
                let which = if ri == 0 { "first-route" } else { "alternative" };
                // classify by root cause where the monitor can observe it
                let sig = if reopened {
                    "C03|run_a_star|stale-state-after-reopened-vertex".to_string()
                } else if matches!(alg, Alg::Yens { .. }) && ri > 0 {
                    "C03|yens|alternative-route-state-not-accumulated".to_string()
                } else {
                    format!("C03|{}|{orient}|{dirn}|{}|{units}|{which}", alg.family(), a.clause)
                };
                rep.violate(&sig, format!("route {ri} {ids:?}: {}", a.detail), || {
                    let mut j = qc.to_json();
                    j["route"] = json!(ids);
                    j["states"] = json!(route.iter().map(|e| e.result_state.iter().map(|s| s.0).collect::<Vec<_>>()).collect::<Vec<_>>());
                    j
                });
            }
            Ok((turns, real_turns)) => {
                rep.count("turns_with_delay_checked", turns as u64);
                if ids.len() >= 3 && (!has_delay || real_turns >= 1) {
                    rep.nontrivial(hash_str(&format!("{}|{}|{:?}|{reverse}|{:?}|{units}", net.ne(), alg.family(), od, ids)));
                    rep.sample(|| json!({"algorithm": alg.name(), "orientation": orient, "direction": dirn, "route": ids, "units": units, "state_units": [world.state.dist_unit.to_string(), world.state.time_unit.to_string()], "initial": [world.state.dist_init, world.state.time_init], "final_state": route.last().map(|e| e.result_state.iter().map(|s| s.0).collect::<Vec<_>>()), "turn_delays": has_delay, "non_straight_turns": real_turns}));
                }
            }
        }
    }
    rep.seen("configurations", format!("{}|{orient}|{dirn}|{units}|{}", alg.family(), if has_delay { "turn_delay" } else { "no_access" }));
}

fn case(tier: Tier, rng: &mut Rng, rep: &mut Report) {
    let p = world_params(tier, rng);
    let world = gen_world(rng, &p);
    let mut qc = QueryCase { world, cut: vec![], query: json!({}), alg: Alg::Dijkstra, od: Od::Vertex(0, None), reverse: false, via_files: rng.chance(0.2) };
    let si = match qc.build() {
        Ok(s) => s,
        Err(e) => {
            rep.inconclusive(format!("could not build a search instance: {e}"));
            return;
        }
    };
    for _ in 0..8 {
        qc.alg = gen_alg(rng, 0.3);
        let edge_oriented = rng.chance(0.3);
        qc.od = if edge_oriented { gen_edge_od(rng, &qc.world.net, true) } else { gen_vertex_od(rng, &qc.world.net, true) };
        qc.reverse = !edge_oriented && !qc.alg.is_ksp() && rng.chance(0.45);
        check_query(&qc, &si, rep);
    }
}


/// application-level slice: the same accumulation oracle on the response of CompassApp::run (json route + traversal
/// summary), with the units and initial values of the state features overridden per query (`state_features`)
fn app_case(case_no: usize, rng: &mut Rng, rep: &mut Report) {
    let mut p = WorldParams::default();
    p.net.min_v = 5;
    p.net.max_v = 24;
    p.net.metric = true;
    p.allow_turn_delay = true;
    p.mixed_units = false;
    p.random_initials = false;
    p.surcharges = false;
    let mut world = gen_world(rng, &p);
    for (_, r) in world.cost.vehicle_rates.iter_mut() {
        if let VehicleCostRate::Combined(_) = r {
            *r = VehicleCostRate::Factor { factor: 2.5 };
        }
    }
    let has_time = world.uses_time();
    let has_delay = matches!(world.access, AccessCfg::TurnDelay { .. });
    // admissible searches only: re-opened vertices are a listed finding of the core-level monitor
    let alg = rng.pick(&[Alg::Dijkstra, Alg::AStar(None), Alg::AStar(Some(1.0)), Alg::AStar(Some(0.0))]).clone();
    let mut spec = AppSpec::basic(world.clone(), alg.clone());
    spec.parallelism = rng.urange(1, 4);
    spec.output_plugins = vec![OutputPlugin::Summary, OutputPlugin::Traversal { route: Some("json".into()), tree: None }];
    let built = match catch(|| build_app(&spec, "c03")) {
        Ok(Ok(b)) => b,
        Ok(Err(e)) => {
            rep.violate("C03|app|CompassApp::try_from|load-error", format!("well-formed configuration refused: {}", e.lines().next().unwrap_or("")), || json!({"toml": e}));
            return;
        }
        Err(pm) => {
            rep.violate(&format!("C03|app|CompassApp::try_from|{}", crate::hooks::panic_sig(&pm)), pm, || json!({}));
            return;
        }
    };
    let net = world.net.clone();
    let mut queries = vec![];
    let mut effs: Vec<(World, usize, usize, &'static str)> = vec![];
    for i in 0..6 {
        let (o, d) = match gen_vertex_od(rng, &net, true) {
            Od::Vertex(o, Some(d)) if o != d => (o, d),
            _ => continue,
        };
        let mut q = json!({"qid": format!("s{case_no}q{i}"), "origin_vertex": o, "destination_vertex": d});
        let mut eff = world.clone();
        let mode = match rng.below(4) {
            0 => "no-override",
            1 => "override-distance",
            2 => "override-time",
            _ => "override-both",
        };
        let mut sf = serde_json::Map::new();
        if mode == "override-distance" || mode == "override-both" {
            eff.state.dist_unit = *rng.pick(&U::DISTANCE_UNITS);
            eff.state.dist_init = if rng.chance(0.5) { 0.0 } else { rng.frange(0.0, 80.0) };
            sf.insert("distance".into(), json!({"distance_unit": eff.state.dist_unit.to_string(), "initial": eff.state.dist_init}));
        }
        if has_time && (mode == "override-time" || mode == "override-both") {
            eff.state.time_unit = *rng.pick(&U::TIME_UNITS);
            eff.state.time_init = if rng.chance(0.5) { 0.0 } else { rng.frange(0.0, 80.0) };
            sf.insert("time".into(), json!({"time_unit": eff.state.time_unit.to_string(), "initial": eff.state.time_init}));
        }
        if !sf.is_empty() {
            q["state_features"] = Value::Object(sf);
        }
        queries.push(q);
        effs.push((eff, o, d, mode));
    }
    if queries.is_empty() {
        return;
    }
    let responses = match catch(|| built.app.run(queries.clone(), None)) {
        Ok(Ok(v)) => v,
        Ok(Err(e)) => {
            rep.violate("C03|app|run-returns-err", format!("run() failed: {e}"), || json!({"toml": built.toml, "batch": queries}));
            return;
        }
        Err(pm) => {
            rep.violate(&format!("C03|app|{}", crate::hooks::panic_sig(&pm)), pm, || json!({"toml": built.toml, "batch": queries}));
            return;
        }
    };
    for (q, (eff, o, d, mode)) in queries.iter().zip(&effs) {
        rep.eval();
        let qid = q["qid"].as_str().unwrap_or("");
        let r = match responses.iter().find(|r| r["request"]["qid"].as_str() == Some(qid)) {
            Some(r) => r,
            None => continue,
        };
        let replay = || json!({"toml": built.toml, "query": q, "world": world.to_json(), "response": r});
        if let Some(e) = r.get("error") {
            let text = e.to_string();
            if text.contains("no path") {
                rep.count("app_unreachable_pairs", 1);
            } else if text.contains("unknown state variable name") {
                // the override only applies to features declared by the traversal / access model; a feature that comes
                // from the [state] section (distance traversal) is refused by name. not an accumulation matter
                rep.count("app_overrides_refused_(feature_not_declared_by_the_model)", 1);
            } else {
                rep.count("app_queries_refused_for_other_reasons_(C12)", 1);
            }
            let _ = &replay;
            continue;
        }
        // slots of the state vector by feature name, as the response itself declares them
        let slot = |name: &str| r["route"]["state_model"][name]["index"].as_u64().map(|v| v as usize);
        let (sd, st) = (slot("distance"), slot("time"));
        if sd.is_none() || (has_time && st.is_none()) {
            rep.violate(&format!("C03|app|{mode}|state-model-not-reported"), format!("route.state_model lacks the features: {}", r["route"]["state_model"]), replay);
            continue;
        }
        // S6 the declared units / initial values are the ones asked for
        let declared_du = r["route"]["state_model"]["distance"]["distance_unit"].as_str().unwrap_or("").to_string();
        let declared_tu = r["route"]["state_model"]["time"]["time_unit"].as_str().unwrap_or("").to_string();
        if declared_du != eff.state.dist_unit.to_string() || (has_time && declared_tu != eff.state.time_unit.to_string()) {
            rep.violate(&format!("C03|app|{mode}|state-unit-not-honoured"), format!("S6 the response declares distance in {declared_du:?} / time in {declared_tu:?}, the query asked for {} / {}", eff.state.dist_unit, eff.state.time_unit), replay);
            continue;
        }
        let path = match r["route"]["path"].as_array() {
            Some(a) if !a.is_empty() => a,
            _ => continue,
        };
        let mut route: Vec<EdgeTraversal> = vec![];
        let mut ok = true;
        for x in path {
            let rs: Vec<f64> = x["result_state"].as_array().map(|a| a.iter().map(|v| v.as_f64().unwrap_or(f64::NAN)).collect()).unwrap_or_default();
            let mut ordered = vec![];
            match sd.and_then(|i| rs.get(i)) {
                Some(v) => ordered.push(StateVar(*v)),
                None => ok = false,
            }
            if has_time {
                match st.and_then(|i| rs.get(i)) {
                    Some(v) => ordered.push(StateVar(*v)),
                    None => ok = false,
                }
            }
            route.push(EdgeTraversal { edge_id: EdgeId(x["edge_id"].as_u64().unwrap_or(u64::MAX) as usize), access_cost: Cost::new(x["access_cost"].as_f64().unwrap_or(f64::NAN)), traversal_cost: Cost::new(x["traversal_cost"].as_f64().unwrap_or(f64::NAN)), result_state: ordered });
        }
        if !ok {
            rep.violate(&format!("C03|app|{mode}|state-vector-shape"), "a route edge's result_state lacks a declared slot".into(), replay);
            continue;
        }
        let ids = route_ids(&route);
        if net.edges.get(ids[0]).map(|e| e.src) != Some(*o) || net.edges.get(*ids.last().unwrap()).map(|e| e.dst) != Some(*d) {
            rep.count("app_routes_with_unexpected_shape_(C01)", 1);
            continue;
        }
        match check_accumulation(eff, &route, false, Od::Vertex(*o, Some(*d))) {
            Err(a) => {
                rep.violate(&format!("C03|app|{mode}|{}", a.clause), format!("route {ids:?}: {}", a.detail), replay);
                continue;
            }
            Ok((turns, real_turns)) => {
                rep.count("app_turns_with_delay_checked", turns as u64);
                // S4 the summary is the state after the last edge
                let last = route.last().map(|e| e.result_state.iter().map(|s| s.0).collect::<Vec<_>>()).unwrap_or_default();
                let sum_d = r["route"]["traversal_summary"]["distance"].as_f64().unwrap_or(f64::NAN);
                let sum_t = r["route"]["traversal_summary"]["time"].as_f64().unwrap_or(f64::NAN);
                if !rel_close(sum_d, last[0], 1e-12, 1e-12) || (has_time && !rel_close(sum_t, last[1], 1e-12, 1e-12)) {
                    rep.violate(&format!("C03|app|{mode}|S4-summary-differs-from-last-state"), format!("S4 traversal_summary distance {sum_d} time {sum_t}, state after the last edge {last:?}"), replay);
                    continue;
                }
                rep.count("app_routes_checked", 1);
                rep.seen("app_state_feature_modes", format!("{mode}|{}", if has_delay { "turn_delay" } else { "no_access" }));
                if ids.len() >= 3 && (!has_delay || real_turns >= 1) {
                    rep.nontrivial(hash_str(&format!("app|{}|{o}|{d}|{ids:?}|{}|{}|{}|{}", net.ne(), eff.state.dist_unit, eff.state.dist_init, eff.state.time_unit, eff.state.time_init)));
                    if *mode != "no-override" {
                        rep.sample(|| json!({"level": "application", "mode": mode, "query": q, "route": ids, "traversal_summary": r["route"]["traversal_summary"], "turn_delays": has_delay}));
                    }
                }
            }
        }
    }
}

pub fn run(tier: Tier, seed: u64) -> MonOut {
    let n = tier.n(16_000, 500_000);
    // one case in 40 goes through the application (response rendering, per-query state_features)
    let mut rep = par_cases(seed, n, |i, rng, rep| if i % 40 == 39 { app_case(i, rng, rep) } else { case(tier, rng, rep) });
    let mut d = Report::new();
    super::c01::run_directed("C03", &mut d, check_query);
    rep.merge(d);
    MonOut {
        report: rep,
        rule: "generated networks (up to 90 vertices for long routes) with distance or speed-table traversal in every unit combination, state features in the model's units or (50 %) in other units, random non-zero initial distance/time, turn-delay access model with random heading tables (departure heading optional) and delay tables in any time unit, weighted/rated costs with per-edge surcharges; 8 queries per network over all algorithms (incl. both k-shortest-path algorithms, every returned alternative), vertex/edge orientation, forward/reverse. every route edge gets S1 (distance sum), S2 (time sum incl. each turn's delay), S3 (edge cost = weighted rated state change), S5 (monotone), S6 (initial values). application-level slice (1 case in 40): CompassApp::run with the json route format; per query the unit and initial value of distance and/or time are overridden through `state_features`; the same S1-S6 on the response's per-edge result_state (slots taken from the response's state_model), S4 traversal_summary = state after the last edge, and the declared units = the units asked for. non-trivial = >= 3 edges and, with turn delays, >= 1 turn that is not 'no_turn'; distinct by (network, algorithm, od, direction, route, unit mode)".into(),
        assumptions: vec![
            "physics oracle: SI unit table, time = length / table speed, delay = table[turn class] in its own unit; tolerance 0.1 % (the figure C09 grants to the repo's conversion constants)".into(),
            "edge cost compared at 1e-9 against the generator's weights/rates applied to the observed state change".into(),
            "the origin edge when first and the destination edge when last may contribute nothing (zero cost, unchanged state) or their true traversal; every other edge contributes exactly once".into(),
        ],
        floor: 300,
        exhaustive: false,
        explanation: "sampled networks, unit configurations and routes; accumulation recomputed independently".into(),
    }
}

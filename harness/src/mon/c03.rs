//! C03 — reported state and costs along a route are the true sums over its edges (core level).
use super::c01::gen_alg;
use super::{MonOut, Tier};
use crate::hooks::Caught;
use crate::oracle::route::{route_ids, Od};
use crate::oracle::units::rel_close;
use crate::par::par_cases;
use crate::report::Report;
use crate::rng::{hash_str, Rng};
use crate::run::{run_search, step_budget, Alg};
use crate::searchcase::{gen_edge_od, gen_vertex_od, had_reopen};
use crate::world::{gen_world, rate_value, AccessCfg, World, WorldParams};
use routee_compass_core::algorithm::search::edge_traversal::EdgeTraversal;
use routee_compass_core::model::unit::as_f64::AsF64;
use serde_json::json;
use crate::worldjson::QueryCase;
use routee_compass_core::algorithm::search::search_instance::SearchInstance;

pub struct Accum {
    pub clause: String,
    pub detail: String,
}

/// check one route in *list order* (the order in which the search accumulated it).
/// `reverse`: the list was accumulated by a reverse search (turns are list[i] -> list[i-1]).
/// `od`: to recognise the zero-cost origin / destination edges of edge-oriented results.
pub fn check_accumulation(world: &World, route: &[EdgeTraversal], reverse: bool, od: Od) -> Result<(usize, usize), Accum> {
    let tol = 1e-3;
    let has_time = world.uses_time();
    let mut dist = world.state.dist_init;
    let mut time = world.state.time_init;
    let mut prev_state: Vec<f64> = {
        let mut v = vec![world.state.dist_init];
        if has_time {
            v.push(world.state.time_init);
        }
        v
    };
    let names: Vec<&str> = if has_time { vec!["distance", "time"] } else { vec!["distance"] };
    let mut turns = 0usize;
    let mut real_turns = 0usize;
    let mut prev_counted_edge: Option<usize> = None;
    for (i, et) in route.iter().enumerate() {
        let e = et.edge_id.0;
        if e >= world.net.ne() {
            return Err(Accum { clause: "unknown-edge".into(), detail: format!("edge {e} does not exist") });
        }
        let st: Vec<f64> = et.result_state.iter().map(|s| s.0).collect();
        if st.len() != names.len() {
            return Err(Accum { clause: "state-length".into(), detail: format!("state has {} entries expected {}", st.len(), names.len()) });
        }
        // zero-cost origin / destination edges of edge-oriented results contribute nothing
        let is_terminal_edge = match od {
            Od::Edge(oe, de) => (i == 0 && e == oe) || (i + 1 == route.len() && Some(e) == de && route.len() > 1),
            _ => false,
        };
        let unchanged = st.iter().zip(&prev_state).all(|(a, b)| a == b);
        let zero_cost = et.access_cost.as_f64() == 0.0 && et.traversal_cost.as_f64() == 0.0;
        if is_terminal_edge && unchanged && (zero_cost || et.total_cost().as_f64() <= 1e-9) {
            continue;
        }
        // physical contribution of this edge
        let dd = world.phys_dist(e);
        dist += dd;
        if has_time {
            let mut dt = world.phys_time(e).unwrap_or(0.0);
            if let Some(pe) = prev_counted_edge {
                let (a, b) = if reverse { (e, pe) } else { (pe, e) };
                if let Some(delay) = world.phys_delay(a, b) {
                    dt += delay;
                    turns += 1;
                    if world.turn_class(a, b) != Some(0) {
                        real_turns += 1;
                    }
                }
            }
            time += dt;
        }
        prev_counted_edge = Some(e);
        // S5 monotone
        if st[0] < prev_state[0] - 1e-9 * prev_state[0].abs() {
            return Err(Accum { clause: "S5-distance-decreases".into(), detail: format!("edge #{i} ({e}): distance {} after {}", st[0], prev_state[0]) });
        }
        if has_time && st[1] < prev_state[1] - 1e-9 * prev_state[1].abs() {
            return Err(Accum { clause: "S5-time-decreases".into(), detail: format!("edge #{i} ({e}): time {} after {}", st[1], prev_state[1]) });
        }
        // S1 distance (S6 at i = 0)
        if !rel_close(st[0], dist, tol, 1e-9) {
            let clause = if i == 0 { "S6-initial-distance" } else { "S1-distance-sum" };
            return Err(Accum { clause: clause.into(), detail: format!("edge #{i} ({e}): reported distance {} {}, true sum {dist} (off by {:.4} %)", st[0], world.state.dist_unit, 100.0 * (st[0] - dist) / dist) });
        }
        // S2 time
        if has_time && !rel_close(st[1], time, tol, 1e-9) {
            let clause = if i == 0 { "S6-initial-time" } else { "S2-time-sum" };
            return Err(Accum { clause: clause.into(), detail: format!("edge #{i} ({e}): reported time {} {}, true sum {time} (off by {:.4} %)", st[1], world.state.time_unit, 100.0 * (st[1] - time) / time) });
        }
        // S3 cost = weighted, rated change of state on this edge (+ per-edge surcharge)
        let mut c = 0.0;
        let mut mag = 0.0;
        for (k, n) in names.iter().enumerate() {
            let w = world.cost.weights.iter().find(|(x, _)| x == n).map(|(_, w)| *w).unwrap_or(0.0);
            let delta = st[k] - prev_state[k];
            let r = world.cost.vehicle_rates.iter().find(|(x, _)| x == n).map(|(_, r)| rate_value(r, delta)).unwrap_or(0.0);
            let sur: f64 = world.cost.edge_surcharge.iter().filter(|(x, _)| x == n).map(|(_, t)| t.get(&e).copied().unwrap_or(0.0)).sum();
            c += w * (r + sur);
            mag += (w * (r + sur)).abs();
        }
        let expect = if c <= 0.0 { 1e-10 } else { c };
        let got = et.total_cost().as_f64();
        if !rel_close(got, expect, 1e-9, 1e-9 * mag) {
            return Err(Accum { clause: "S3-edge-cost".into(), detail: format!("edge #{i} ({e}): access {} + traversal {} = {got}, weighted rated state change is {expect}", et.access_cost.as_f64(), et.traversal_cost.as_f64()) });
        }
        prev_state = st;
    }
    Ok((turns, real_turns))
}

pub fn world_params(tier: Tier, rng: &mut Rng) -> WorldParams {
    let mut p = WorldParams::default();
    p.net.max_v = if tier.thorough { 50 } else { 24 };
    if rng.chance(0.15) {
        // longer routes
        p.net.min_v = 30;
        p.net.max_v = 90;
    }
    p.net.metric = rng.chance(0.6);
    p.allow_turn_delay = true;
    p.mixed_units = rng.chance(0.5);
    p.random_initials = true;
    p.surcharges = true;
    p
}

fn unit_mode(world: &World) -> &'static str {
    let mixed = match &world.trav {
        crate::world::TravCfg::Distance { unit } => *unit != world.state.dist_unit,
        crate::world::TravCfg::Speed { dist_unit, time_unit, .. } => *dist_unit != world.state.dist_unit || *time_unit != world.state.time_unit,
    } || match &world.access {
        AccessCfg::TurnDelay { unit, .. } => *unit != world.state.time_unit,
        _ => false,
    };
    if mixed { "mixed-units" } else { "same-units" }
}

pub fn check_query(qc: &QueryCase, si: &SearchInstance, rep: &mut Report) {
    rep.eval();
    let world = &qc.world;
    let net = &world.net;
    let (alg, od, reverse) = (&qc.alg, qc.od, qc.reverse);
    let units = unit_mode(world);
    let has_delay = matches!(world.access, AccessCfg::TurnDelay { .. });
    let (out, ctx) = run_search(alg, si, od, reverse, &qc.query, step_budget(net.nv(), net.ne(), qc.k()), true);
    let reopened = had_reopen(&ctx.events);
    if reopened {
        rep.count("searches_with_reopened_vertices", 1);
    }
    let res = match out {
        Err(Caught::Budget(_)) => {
            rep.count("budget_exceeded_(decided_by_C13)", 1);
            return;
        }
        Err(Caught::Panic(_)) => {
            rep.count("panics_(decided_by_C12/C13)", 1);
            return;
        }
        Ok(Err(_)) => {
            rep.count("search_errors", 1);
            return;
        }
        Ok(Ok(r)) => r,
    };
    let (orient, dirn) = (qc.orient(), qc.dirn());
    for (ri, route) in res.routes.iter().enumerate() {
        let ids = route_ids(route);
        rep.count("routes_checked", 1);
        rep.max("max_route_edges", ids.len() as u64);
        match check_accumulation(world, route, reverse, od) {
            Err(a) => {
                let which = if ri == 0 { "first-route" } else { "alternative" };
                // classify by root cause where the monitor can observe it
                let sig = if reopened {
                    "C03|run_a_star|stale-state-after-reopened-vertex".to_string()
                } else if matches!(alg, Alg::Yens { .. }) && ri > 0 {
                    "C03|yens|alternative-route-state-not-accumulated".to_string()
                } else {
                    format!("C03|{}|{orient}|{dirn}|{}|{units}|{which}", alg.family(), a.clause)
                };
                rep.violate(&sig, format!("route {ri} {ids:?}: {}", a.detail), || {
                    let mut j = qc.to_json();
                    j["route"] = json!(ids);
                    j["states"] = json!(route.iter().map(|e| e.result_state.iter().map(|s| s.0).collect::<Vec<_>>()).collect::<Vec<_>>());
                    j
                });
            }
            Ok((turns, real_turns)) => {
                rep.count("turns_with_delay_checked", turns as u64);
                if ids.len() >= 3 && (!has_delay || real_turns >= 1) {
                    rep.nontrivial(hash_str(&format!("{}|{}|{:?}|{reverse}|{:?}|{units}", net.ne(), alg.family(), od, ids)));
                    rep.sample(|| json!({"algorithm": alg.name(), "orientation": orient, "direction": dirn, "route": ids, "units": units, "state_units": [world.state.dist_unit.to_string(), world.state.time_unit.to_string()], "initial": [world.state.dist_init, world.state.time_init], "final_state": route.last().map(|e| e.result_state.iter().map(|s| s.0).collect::<Vec<_>>()), "turn_delays": has_delay, "non_straight_turns": real_turns}));
                }
            }
        }
    }
    rep.seen("configurations", format!("{}|{orient}|{dirn}|{units}|{}", alg.family(), if has_delay { "turn_delay" } else { "no_access" }));
}

fn case(tier: Tier, rng: &mut Rng, rep: &mut Report) {
    let p = world_params(tier, rng);
    let world = gen_world(rng, &p);
    let mut qc = QueryCase { world, cut: vec![], query: json!({}), alg: Alg::Dijkstra, od: Od::Vertex(0, None), reverse: false, via_files: rng.chance(0.2) };
    let si = match qc.build() {
        Ok(s) => s,
        Err(e) => {
            rep.inconclusive(format!("could not build a search instance: {e}"));
            return;
        }
    };
    for _ in 0..8 {
        qc.alg = gen_alg(rng, 0.3);
        let edge_oriented = rng.chance(0.3);
        qc.od = if edge_oriented { gen_edge_od(rng, &qc.world.net, true) } else { gen_vertex_od(rng, &qc.world.net, true) };
        qc.reverse = !edge_oriented && !qc.alg.is_ksp() && rng.chance(0.45);
        check_query(&qc, &si, rep);
    }
}

pub fn run(tier: Tier, seed: u64) -> MonOut {
    let n = tier.n(16_000, 500_000);
    let mut rep = par_cases(seed, n, |_i, rng, rep| case(tier, rng, rep));
    let mut d = Report::new();
    super::c01::run_directed("C03", &mut d, check_query);
    rep.merge(d);
    MonOut {
        report: rep,
        rule: "generated networks (up to 90 vertices for long routes) with distance or speed-table traversal in every unit combination, state features in the model's units or (50 %) in other units, random non-zero initial distance/time, turn-delay access model with random heading tables (departure heading optional) and delay tables in any time unit, weighted/rated costs with per-edge surcharges; 8 queries per network over all algorithms (incl. both k-shortest-path algorithms, every returned alternative), vertex/edge orientation, forward/reverse. every route edge gets S1 (distance sum), S2 (time sum incl. each turn's delay), S3 (edge cost = weighted rated state change), S5 (monotone), S6 (initial values). non-trivial = >= 3 edges and, with turn delays, >= 1 turn that is not 'no_turn'; distinct by (network, algorithm, od, direction, route, unit mode)".into(),
        assumptions: vec![
            "physics oracle: SI unit table, time = length / table speed, delay = table[turn class] in its own unit; tolerance 0.1 % (the figure C09 grants to the repo's conversion constants)".into(),
            "edge cost compared at 1e-9 against the generator's weights/rates applied to the observed state change".into(),
            "the origin edge when first and the destination edge when last may contribute nothing (zero cost, unchanged state) or their true traversal; every other edge contributes exactly once".into(),
        ],
        floor: 300,
        exhaustive: false,
        explanation: "sampled networks, unit configurations and routes; accumulation recomputed independently".into(),
    }
}

//! C07 — edge costs are finite and strictly positive; estimates are non-negative.
use super::{MonOut, Tier};
use crate::gen::net::{RefEdge, RefNet};
use crate::hooks::{catch, panic_sig};
use crate::oracle::units::rel_close;
use crate::par::par_cases;
use crate::report::Report;
use crate::rng::{hash_str, Rng};
use crate::world::rate_value;
use routee_compass_core::algorithm::search::edge_traversal::EdgeTraversal;
use routee_compass_core::algorithm::search::search_instance::SearchInstance;
use routee_compass_core::model::access::access_model::AccessModel;
use routee_compass_core::model::access::access_model_error::AccessModelError;
use routee_compass_core::model::cost::{
    cost_aggregation::CostAggregation, cost_model::CostModel,
    network::network_cost_rate::NetworkCostRate, vehicle::vehicle_cost_rate::VehicleCostRate,
};
use routee_compass_core::model::frontier::default::no_restriction::NoRestriction;
use routee_compass_core::model::network::{Edge, EdgeId, Vertex};
use routee_compass_core::model::state::custom_feature_format::CustomFeatureFormat;
use routee_compass_core::model::state::state_feature::StateFeature;
use routee_compass_core::model::state::state_model::StateModel;
use routee_compass_core::model::termination::termination_model::TerminationModel;
use routee_compass_core::model::traversal::state::state_variable::StateVar;
use routee_compass_core::model::traversal::traversal_model::TraversalModel;
use routee_compass_core::model::traversal::traversal_model_error::TraversalModelError;
use routee_compass_core::model::unit::as_f64::AsF64;
use routee_compass_core::model::unit::{Cost, Distance, DistanceUnit, Time, TimeUnit};
use serde_json::{json, Value};
use std::collections::HashMap;
use std::sync::Arc;

pub const FLOOR: f64 = 1e-10;

/// traversal model that adds a prescribed delta per (edge, slot)
struct DeltaTraversal {
    deltas: Vec<Vec<f64>>,
}
impl TraversalModel for DeltaTraversal {
    fn state_features(&self) -> Vec<(String, StateFeature)> {
        vec![]
    }
    fn traverse_edge(&self, t: (&Vertex, &Edge, &Vertex), state: &mut Vec<StateVar>, _: &StateModel) -> Result<(), TraversalModelError> {
        for (i, d) in self.deltas[t.1.edge_id.0].iter().enumerate() {
            state[i] = StateVar(state[i].0 + d);
        }
        Ok(())
    }
    fn estimate_traversal(&self, _: (&Vertex, &Vertex), _: &mut Vec<StateVar>, _: &StateModel) -> Result<(), TraversalModelError> {
        Ok(())
    }
}
/// access model that adds a prescribed delta per (prev edge, next edge, slot)
struct DeltaAccess {
    deltas: HashMap<(usize, usize), Vec<f64>>,
}
impl AccessModel for DeltaAccess {
    fn state_features(&self) -> Vec<(String, StateFeature)> {
        vec![]
    }
    fn access_edge(&self, t: (&Vertex, &Edge, &Vertex, &Edge, &Vertex), state: &mut Vec<StateVar>, _: &StateModel) -> Result<(), AccessModelError> {
        if let Some(d) = self.deltas.get(&(t.1.edge_id.0, t.3.edge_id.0)) {
            for (i, x) in d.iter().enumerate() {
                state[i] = StateVar(state[i].0 + x);
            }
        }
        Ok(())
    }
}

#[derive(Clone, Debug)]
struct CostSetup {
    names: Vec<String>,
    weights: Vec<f64>,
    rates: Vec<VehicleCostRate>,
    edge_sur: Vec<HashMap<usize, f64>>,
    turn_sur: Vec<HashMap<(usize, usize), f64>>,
    /// features for which no weight / rate entry is supplied at all (defaults must apply: weight 0, rate zero)
    omitted_weight: Vec<bool>,
    omitted_rate: Vec<bool>,
    agg: CostAggregation,
}

fn gen_rate_any(rng: &mut Rng, depth: usize) -> VehicleCostRate {
    match rng.below(if depth == 0 { 6 } else { 4 }) {
        0 => VehicleCostRate::Zero,
        1 => VehicleCostRate::Raw,
        2 => VehicleCostRate::Factor { factor: if rng.chance(0.7) { rng.log_uniform(1e-3, 1e3) } else { -rng.log_uniform(1e-3, 1e3) } },
        3 => VehicleCostRate::Offset { offset: rng.frange(-5.0, 5.0) },
        4 => VehicleCostRate::Raw,
        _ => {
            let k = rng.urange(1, 3);
            VehicleCostRate::Combined((0..k).map(|_| gen_rate_any(rng, depth + 1)).collect())
        }
    }
}

fn gen_setup(rng: &mut Rng, ne: usize, pairs: &[(usize, usize)]) -> CostSetup {
    let nf = rng.urange(1, 8);
    let names: Vec<String> = (0..nf).map(|i| format!("f{i}")).collect();
    let mut weights: Vec<f64> = (0..nf)
        .map(|_| match rng.below(6) {
            0 => 0.0,
            1 => -rng.log_uniform(0.01, 10.0),
            _ => rng.log_uniform(0.001, 100.0),
        })
        .collect();
    let omitted_weight: Vec<bool> = (0..nf).map(|_| rng.chance(0.1)).collect();
    let omitted_rate: Vec<bool> = (0..nf).map(|_| rng.chance(0.1)).collect();
    let eff: f64 = weights.iter().zip(&omitted_weight).map(|(w, o)| if *o { 0.0 } else { *w }).sum();
    if eff == 0.0 {
        // the model rejects a zero weight sum; keep the workload inside the precondition
        weights[0] = 1.0;
    }
    let rates = (0..nf).map(|_| gen_rate_any(rng, 0)).collect();
    let edge_sur = (0..nf)
        .map(|_| {
            let mut t = HashMap::new();
            if rng.chance(0.4) {
                for e in 0..ne {
                    if rng.chance(0.5) {
                        t.insert(e, if rng.chance(0.8) { rng.log_uniform(1e-3, 1e3) } else { -rng.log_uniform(1e-3, 1e3) });
                    }
                }
            }
            t
        })
        .collect();
    let turn_sur = (0..nf)
        .map(|_| {
            let mut t = HashMap::new();
            if rng.chance(0.4) {
                for p in pairs {
                    if rng.chance(0.6) {
                        t.insert(*p, if rng.chance(0.8) { rng.log_uniform(1e-3, 1e3) } else { -rng.log_uniform(1e-3, 1e3) });
                    }
                }
            }
            t
        })
        .collect();
    let mut s = CostSetup {
        names,
        weights,
        rates,
        edge_sur,
        turn_sur,
        omitted_weight,
        omitted_rate,
        agg: if rng.chance(0.75) { CostAggregation::Sum } else { CostAggregation::Mul },
    };
    // keep the effective weight sum non-zero after omissions
    let eff: f64 = s.eff_weights().iter().sum();
    if eff == 0.0 {
        s.omitted_weight[0] = false;
        s.weights[0] = 1.0;
    }
    s
}

impl CostSetup {
    fn eff_weights(&self) -> Vec<f64> {
        self.weights.iter().zip(&self.omitted_weight).map(|(w, o)| if *o { 0.0 } else { *w }).collect()
    }
    fn eff_rate(&self, i: usize) -> VehicleCostRate {
        if self.omitted_rate[i] { VehicleCostRate::Zero } else { self.rates[i].clone() }
    }
    fn state_model(&self) -> StateModel {
        // a mixture of kinds; the cost model only sees raw slot values
        StateModel::new(
            self.names
                .iter()
                .enumerate()
                .map(|(i, n)| {
                    let f = match i % 3 {
                        0 => StateFeature::Custom { r#type: "x".into(), unit: "u".into(), format: CustomFeatureFormat::FloatingPoint { initial: 0.0.into() } },
                        1 => StateFeature::Distance { distance_unit: DistanceUnit::Kilometers, initial: Distance::ZERO },
                        _ => StateFeature::Time { time_unit: TimeUnit::Seconds, initial: Time::ZERO },
                    };
                    (n.clone(), f)
                })
                .collect(),
        )
    }
    fn build(&self, scale: f64) -> Result<CostModel, String> {
        let sm = Arc::new(self.state_model());
        let w: HashMap<String, f64> = self.names.iter().enumerate().filter(|(i, _)| !self.omitted_weight[*i]).map(|(i, n)| (n.clone(), self.weights[i] * scale)).collect();
        let r: HashMap<String, VehicleCostRate> = self.names.iter().enumerate().filter(|(i, _)| !self.omitted_rate[*i]).map(|(i, n)| (n.clone(), self.rates[i].clone())).collect();
        let mut nr: HashMap<String, NetworkCostRate> = HashMap::new();
        for (i, n) in self.names.iter().enumerate() {
            let mut parts = vec![];
            if !self.edge_sur[i].is_empty() {
                parts.push(NetworkCostRate::EdgeLookup { lookup: self.edge_sur[i].iter().map(|(e, c)| (EdgeId(*e), Cost::new(*c))).collect() });
            }
            if !self.turn_sur[i].is_empty() {
                parts.push(NetworkCostRate::EdgeEdgeLookup { lookup: self.turn_sur[i].iter().map(|((a, b), c)| ((EdgeId(*a), EdgeId(*b)), Cost::new(*c))).collect() });
            }
            match parts.len() {
                0 => {}
                1 => {
                    nr.insert(n.clone(), parts.remove(0));
                }
                _ => {
                    nr.insert(n.clone(), NetworkCostRate::Combined(parts));
                }
            }
        }
        CostModel::new(Arc::new(w), Arc::new(r), Arc::new(nr), self.agg, sm).map_err(|e| e.to_string())
    }
    /// independent sum-aggregation formula
    fn vehicle_sum(&self, delta: &[f64], scale: f64) -> f64 {
        let w = self.eff_weights();
        (0..self.names.len()).map(|i| w[i] * scale * rate_value(&self.eff_rate(i), delta[i])).sum()
    }
    fn edge_sum(&self, e: usize, scale: f64) -> f64 {
        let w = self.eff_weights();
        (0..self.names.len()).map(|i| w[i] * scale * self.edge_sur[i].get(&e).copied().unwrap_or(0.0)).sum()
    }
    fn turn_sum(&self, p: Option<(usize, usize)>, scale: f64) -> f64 {
        let w = self.eff_weights();
        match p {
            None => 0.0,
            Some(p) => (0..self.names.len()).map(|i| w[i] * scale * self.turn_sur[i].get(&p).copied().unwrap_or(0.0)).sum(),
        }
    }
    fn json(&self) -> Value {
        json!({
            "names": self.names, "weights": self.weights, "omitted_weight": self.omitted_weight, "omitted_rate": self.omitted_rate,
            "rates": self.rates.iter().map(crate::world::rate_json).collect::<Vec<_>>(),
            "edge_surcharge": self.edge_sur.iter().map(|t| t.iter().map(|(e,c)| json!([e,c])).collect::<Vec<_>>()).collect::<Vec<_>>(),
            "turn_surcharge": self.turn_sur.iter().map(|t| t.iter().map(|((a,b),c)| json!([a,b,c])).collect::<Vec<_>>()).collect::<Vec<_>>(),
            "aggregation": format!("{:?}", self.agg),
        })
    }
}

fn floored(x: f64) -> f64 {
    if x <= 0.0 { FLOOR } else { x }
}

fn gen_delta(rng: &mut Rng, nf: usize) -> Vec<f64> {
    (0..nf)
        .map(|_| match rng.below(6) {
            0 => 0.0,
            1 => -rng.log_uniform(1e-6, 1e4),
            _ => rng.log_uniform(1e-6, 1e4),
        })
        .collect()
}

fn close(a: f64, b: f64, scale: f64) -> bool {
    rel_close(a, b, 1e-9, 1e-9 * scale.abs().max(1e-300))
}

fn case(rng: &mut Rng, rep: &mut Report) {
    // a tiny network: chain/fan of 2..6 edges so that consecutive pairs exist
    let ne = rng.urange(2, 6);
    let nv = ne + 1;
    let mut edges = vec![];
    for e in 0..ne {
        let src = if rng.chance(0.7) { e } else { rng.below(e + 1) };
        edges.push(RefEdge { src, dst: e + 1, len_m: rng.log_uniform(1.0, 5000.0) });
    }
    // a few extra edges back
    for _ in 0..rng.urange(0, 2) {
        edges.push(RefEdge { src: rng.below(nv), dst: rng.below(nv), len_m: 10.0 });
    }
    let net = RefNet { coords: vec![(0.0, 0.0); nv], edges, motifs: vec![], metric: false };
    let ne = net.ne();
    let pairs: Vec<(usize, usize)> = (0..ne).flat_map(|a| (0..ne).map(move |b| (a, b))).filter(|(a, b)| a != b && net.edges[*a].dst == net.edges[*b].src).collect();
    let setup = gen_setup(rng, ne, &pairs);
    let nf = setup.names.len();
    let sum = matches!(setup.agg, CostAggregation::Sum);
    let cm = match catch(|| setup.build(1.0)) {
        Ok(Ok(c)) => c,
        Ok(Err(e)) => {
            rep.violate("C07|CostModel::new|error", format!("cost model with non-zero weight sum refused: {e}"), || json!({"setup": setup.json()}));
            return;
        }
        Err(p) => {
            rep.violate(&format!("C07|CostModel::new|{}", panic_sig(&p)), format!("panicked: {p}"), || json!({"setup": setup.json()}));
            return;
        }
    };
    let aggname = if sum { "sum" } else { "mul" };
    // ---------------- direct calls ----------------
    for _ in 0..24 {
        rep.eval();
        let prev: Vec<f64> = (0..nf).map(|_| if rng.chance(0.3) { 0.0 } else { rng.frange(-1e6, 1e6) }).collect();
        let delta = gen_delta(rng, nf);
        let next: Vec<f64> = prev.iter().zip(&delta).map(|(p, d)| p + d).collect();
        // the delta the model will actually see (after floating point cancellation at large magnitudes)
        let seen: Vec<f64> = next.iter().zip(&prev).map(|(n, p)| n - p).collect();
        let ps: Vec<StateVar> = prev.iter().map(|x| StateVar(*x)).collect();
        let ns: Vec<StateVar> = next.iter().map(|x| StateVar(*x)).collect();
        let e = rng.below(ne);
        let edge = Edge::new(e, net.edges[e].src, net.edges[e].dst, net.edges[e].len_m);
        let pair = if pairs.is_empty() { None } else { Some(pairs[rng.below(pairs.len())]) };
        let replay = || json!({"setup": setup.json(), "prev": prev, "next": next, "edge": e, "pair": pair});
        let res = catch(|| {
            let t = cm.traversal_cost(&edge, &ps, &ns);
            let a = pair.map(|(a, b)| {
                let ea = Edge::new(a, net.edges[a].src, net.edges[a].dst, net.edges[a].len_m);
                let eb = Edge::new(b, net.edges[b].src, net.edges[b].dst, net.edges[b].len_m);
                cm.access_cost(&ea, &eb, &ps, &ns)
            });
            let est = cm.cost_estimate(&ps, &ns);
            (t, a, est)
        });
        let (t, a, est) = match res {
            Err(p) => {
                rep.violate(&format!("C07|CostModel|{}", panic_sig(&p)), format!("panicked: {p}"), replay);
                return;
            }
            Ok(x) => x,
        };
        let t = match t {
            Ok(c) => c.as_f64(),
            Err(e) => {
                rep.violate("C07|CostModel::traversal_cost|error", format!("error on finite states: {e}"), replay);
                return;
            }
        };
        if !(t.is_finite() && t > 0.0) {
            rep.violate(&format!("C07|CostModel::traversal_cost|not-finite-positive|{aggname}"), format!("K1 traversal cost {t}"), replay);
            return;
        }
        let exp_t = floored(setup.vehicle_sum(&seen, 1.0) + setup.edge_sum(e, 1.0));
        let mag: f64 = (0..nf).map(|i| (setup.eff_weights()[i] * rate_value(&setup.eff_rate(i), seen[i])).abs()).sum::<f64>() + setup.edge_sum(e, 1.0).abs();
        if sum && !close(t, exp_t, mag) {
            rep.violate("C07|CostModel::traversal_cost|formula-mismatch|sum", format!("K3 traversal cost {t} expected {exp_t}"), replay);
            return;
        }
        if let Some(a) = a {
            let a = match a {
                Ok(c) => c.as_f64(),
                Err(e) => {
                    rep.violate("C07|CostModel::access_cost|error", format!("error on finite states: {e}"), replay);
                    return;
                }
            };
            if !(a.is_finite() && a > 0.0) {
                rep.violate(&format!("C07|CostModel::access_cost|not-finite-positive|{aggname}"), format!("K1 access cost {a}"), replay);
                return;
            }
            let exp_a = floored(setup.vehicle_sum(&seen, 1.0) + setup.turn_sum(pair, 1.0));
            let mag_a = mag + setup.turn_sum(pair, 1.0).abs();
            if sum && !close(a, exp_a, mag_a) {
                rep.violate("C07|CostModel::access_cost|formula-mismatch|sum", format!("K3 access cost {a} expected {exp_a}"), replay);
                return;
            }
        }
        let est = match est {
            Ok(c) => c.as_f64(),
            Err(e) => {
                rep.violate("C07|CostModel::cost_estimate|error", format!("error on finite states: {e}"), replay);
                return;
            }
        };
        if !(est.is_finite() && est >= 0.0) {
            rep.violate(&format!("C07|CostModel::cost_estimate|negative-or-non-finite|{aggname}"), format!("K2 estimate {est}"), replay);
            return;
        }
        if sum {
            let exp_e = setup.vehicle_sum(&seen, 1.0).max(0.0);
            if !close(est, exp_e, mag) {
                rep.violate("C07|CostModel::cost_estimate|formula-mismatch|sum", format!("K2 estimate {est} expected {exp_e}"), replay);
                return;
            }
            // K4 linearity in the weights
            let c = rng.log_uniform(0.01, 100.0);
            if let Ok(Ok(cm2)) = catch(|| setup.build(c)) {
                if let Ok(t2) = cm2.traversal_cost(&edge, &ps, &ns) {
                    let t2 = t2.as_f64();
                    if t > FLOOR * 1.5 && exp_t > FLOOR * 1.5 && !close(t2, c * t, c * mag) {
                        rep.violate("C07|CostModel::traversal_cost|not-linear-in-weights", format!("K4 weights x{c}: cost {t2} expected {}", c * t), replay);
                        return;
                    }
                }
            }
            // K5 zero-weight features are ignored
            let w = setup.eff_weights();
            if let Some(z) = (0..nf).find(|i| w[*i] == 0.0) {
                let mut ns2 = ns.clone();
                ns2[z] = StateVar(ns2[z].0 + rng.frange(-1e4, 1e4));
                if let Ok(t3) = cm.traversal_cost(&edge, &ps, &ns2) {
                    if !close(t3.as_f64(), t, mag) {
                        rep.violate("C07|CostModel::traversal_cost|zero-weight-feature-matters", format!("K5 changing zero-weight feature {z} moved the cost {t} -> {}", t3.as_f64()), replay);
                        return;
                    }
                }
                rep.count("zero_weight_checks", 1);
            }
        }
        let neg = seen.iter().any(|d| *d < 0.0);
        let is_floor = exp_t == FLOOR;
        rep.count(if is_floor { "floored_totals" } else { "positive_totals" }, 1);
        if neg || is_floor {
            rep.nontrivial(hash_str(&format!("{:?}{:?}{:?}{}", setup.weights, seen, setup.agg, e)));
        }
    }
    // ---------------- EdgeTraversal on the tiny network ----------------
    let trav_deltas: Vec<Vec<f64>> = (0..ne).map(|_| gen_delta(rng, nf)).collect();
    let mut acc_deltas: HashMap<(usize, usize), Vec<f64>> = HashMap::new();
    for p in &pairs {
        if rng.chance(0.7) {
            acc_deltas.insert(*p, gen_delta(rng, nf));
        }
    }
    let sm = Arc::new(setup.state_model());
    let cm = match setup.build(1.0) {
        Ok(c) => c,
        Err(_) => return,
    };
    let si = SearchInstance {
        directed_graph: Arc::new(net.to_graph()),
        state_model: sm.clone(),
        traversal_model: Arc::new(DeltaTraversal { deltas: trav_deltas.clone() }),
        access_model: Arc::new(DeltaAccess { deltas: acc_deltas.clone() }),
        cost_model: Arc::new(cm),
        frontier_model: Arc::new(NoRestriction {}),
        termination_model: Arc::new(TerminationModel::IterationsLimit { limit: 1_000_000 }),
    };
    for _ in 0..12 {
        rep.eval();
        let start: Vec<f64> = (0..nf).map(|_| if rng.chance(0.5) { 0.0 } else { rng.frange(0.0, 1e4) }).collect();
        let st: Vec<StateVar> = start.iter().map(|x| StateVar(*x)).collect();
        let forward = rng.chance(0.5);
        // (traversed edge, the other edge of the turn, pair in travel order)
        let (edge, other, pair) = if !pairs.is_empty() && rng.chance(0.75) {
            let (a, b) = pairs[rng.below(pairs.len())];
            if forward { (b, Some(a), Some((a, b))) } else { (a, Some(b), Some((a, b))) }
        } else {
            (rng.below(ne), None, None)
        };
        let replay = || json!({"setup": setup.json(), "net": net.to_json(), "traversal_deltas": trav_deltas, "access_deltas": acc_deltas.iter().map(|((a,b),d)| json!([a,b,d])).collect::<Vec<_>>(), "start": start, "direction": if forward {"forward"} else {"reverse"}, "edge": edge, "other_edge": other});
        let r = catch(|| {
            if forward {
                EdgeTraversal::forward_traversal(EdgeId(edge), other.map(EdgeId), &st, &si)
            } else {
                EdgeTraversal::reverse_traversal(EdgeId(edge), other.map(EdgeId), &st, &si)
            }
        });
        let et = match r {
            Err(p) => {
                rep.violate(&format!("C07|EdgeTraversal|{}", panic_sig(&p)), format!("panicked: {p}"), replay);
                return;
            }
            Ok(Err(e)) => {
                rep.violate("C07|EdgeTraversal|error", format!("error on finite states: {e}"), replay);
                return;
            }
            Ok(Ok(et)) => et,
        };
        let total = et.total_cost().as_f64();
        if !(total.is_finite() && total > 0.0) {
            rep.violate(&format!("C07|EdgeTraversal|total-not-finite-positive|{aggname}"), format!("K1 access {} + traversal {} = {total}", et.access_cost.as_f64(), et.traversal_cost.as_f64()), replay);
            return;
        }
        // observed state change of the whole step
        let seen: Vec<f64> = et.result_state.iter().zip(&st).map(|(n, p)| n.0 - p.0).collect();
        let da = pair.and_then(|p| acc_deltas.get(&p)).cloned().unwrap_or_else(|| vec![0.0; nf]);
        let want: Vec<f64> = (0..nf).map(|i| (start[i] + da[i] + trav_deltas[edge][i]) - start[i]).collect();
        if seen.iter().zip(&want).any(|(a, b)| !rel_close(*a, *b, 1e-9, 1e-6)) {
            rep.violate("C07|EdgeTraversal|state-delta-mismatch", format!("state changed by {seen:?} expected {want:?}"), replay);
            return;
        }
        if sum {
            let v = setup.vehicle_sum(&seen, 1.0);
            let es = setup.edge_sum(edge, 1.0);
            let ts = setup.turn_sum(pair, 1.0);
            let mag: f64 = (0..nf).map(|i| (setup.eff_weights()[i] * rate_value(&setup.eff_rate(i), seen[i])).abs()).sum::<f64>() + es.abs() + ts.abs();
            let expect = floored(v + es + ts);
            if !close(total, expect, mag) {
                let without_turn = floored(v + es);
                let sig = if ts != 0.0 && close(total, without_turn, mag) { "C07|EdgeTraversal|turn-surcharge-not-charged|sum" } else { "C07|EdgeTraversal|total-formula-mismatch|sum" };
                rep.violate(sig, format!("K3 charged total {total} expected {expect} (state part {v}, edge surcharge {es}, turn surcharge {ts})"), replay);
                continue;
            }
            if ts != 0.0 {
                rep.count("totals_with_turn_surcharge", 1);
            }
        }
        rep.count("edge_traversals", 1);
        if seen.iter().any(|d| *d < 0.0) || pair.is_some() {
            rep.nontrivial(hash_str(&format!("et{:?}{:?}{}{:?}", setup.weights, seen, edge, pair)));
        }
        rep.sample(|| json!({"weights": setup.weights, "aggregation": aggname, "state_change": seen, "edge": edge, "turn": pair, "access_cost": et.access_cost.as_f64(), "traversal_cost": et.traversal_cost.as_f64()}));
    }
}

pub fn run(tier: Tier, seed: u64) -> MonOut {
    let n = tier.n(200_000, 8_000_000);
    let rep = par_cases(seed, n, |_i, rng, rep| case(rng, rep));
    MonOut {
        report: rep,
        rule: "random cost setups: 1..8 features, weights incl. zeros/negatives (non-zero sum) and omitted entries, rates zero/raw/factor(+-)/offset(+-)/nested combined, per-edge and per-turn surcharge tables (+-), sum or mul aggregation; 24 direct traversal_cost/access_cost/cost_estimate calls on random finite prev/next vectors (|state|<=1e6, deltas 0/+-1e-6..1e4) and 12 EdgeTraversal::forward/reverse_traversal calls on a 2..8-edge network with harness traversal/access models that add prescribed deltas. non-trivial = a negative delta, a floored total or a turn; distinct by (weights, delta, edge, turn)".into(),
        assumptions: vec![
            "surcharges are weighted by their feature's weight (the statement's linearity in the weights and 'ignores zero-weight features' require it)".into(),
            "magnitudes bounded so the mathematical value is representable; comparison at 1e-9 of the sum of absolute terms".into(),
            "mul aggregation: only finiteness/positivity/non-negativity (K1,K2) are asserted".into(),
        ],
        floor: 500,
        exhaustive: false,
        explanation: "sampled configurations and state pairs against an independent closed formula".into(),
    }
}

//! C08 — vehicle energy and battery state follow the powertrain model along a route.
use super::c14::{model_path, MODELS};
use super::{MonOut, Tier};
use crate::appgen::{fresh_dir, remove_dir, silence_stderr};

use crate::hooks::{catch, panic_sig};
use crate::oracle::units as U;
use crate::oracle::units::rel_close;
use crate::par::par_cases;
use crate::report::Report;
use crate::rng::{hash_str, Rng};
use routee_compass::app::compass::config::compass_app_builder::CompassAppBuilder;
use routee_compass_core::model::network::{Edge, Vertex};
use routee_compass_core::model::state::state_model::StateModel;
use routee_compass_core::model::traversal::state::state_variable::StateVar;
use routee_compass_core::model::unit::as_f64::AsF64;
use routee_compass_core::model::unit::{DistanceUnit, EnergyRate, EnergyRateUnit, Grade, GradeUnit, Speed, SpeedUnit};
use routee_compass_powertrain::routee::prediction::model_type::ModelType;
use routee_compass_powertrain::routee::prediction::{load_prediction_model, PredictionModelRecord};
use serde_json::{json, Value};

#[derive(Clone, Debug)]
struct ModelCfg {
    file: &'static str,
    eru: EnergyRateUnit,
    interpolate: bool,
    ideal: Option<f64>,
    adjustment: Option<f64>,
    cache: bool,
}

impl ModelCfg {
    fn json(&self, name: &str) -> Value {
        let mt = if self.interpolate {
            json!({"interpolate": {"underlying_model_type": "smartcore", "speed_lower_bound": 0.0, "speed_upper_bound": 100.0, "speed_bins": 41, "grade_lower_bound": -0.2, "grade_upper_bound": 0.2, "grade_bins": 21}})
        } else {
            json!("smartcore")
        };
        let mut v = json!({
            "name": name,
            "model_input_file": model_path(self.file).to_string_lossy(),
            "model_type": mt,
            "speed_unit": "miles_per_hour",
            "grade_unit": "decimal",
            "energy_rate_unit": self.eru.to_string(),
        });
        if let Some(i) = self.ideal {
            v["ideal_energy_rate"] = json!(i);
        }
        if let Some(a) = self.adjustment {
            v["real_world_energy_adjustment"] = json!(a);
        }
        if self.cache {
            v["float_cache_policy"] = json!({"cache_size": 64, "key_precisions": [3, 5]});
        }
        v
    }
    /// the monitor's own copy of the same prediction model (deterministic), without cache
    fn load(&self) -> Result<PredictionModelRecord, String> {
        let mt = if self.interpolate {
            ModelType::Interpolate {
                underlying_model_type: Box::new(ModelType::Smartcore),
                speed_lower_bound: Speed::new(0.0),
                speed_upper_bound: Speed::new(100.0),
                speed_bins: 41,
                grade_lower_bound: Grade::new(-0.2),
                grade_upper_bound: Grade::new(0.2),
                grade_bins: 21,
            }
        } else {
            ModelType::Smartcore
        };
        load_prediction_model("oracle".into(), &model_path(self.file), mt, SpeedUnit::MilesPerHour, GradeUnit::Decimal, self.eru, self.ideal.map(EnergyRate::new), self.adjustment, None).map_err(|e| e.to_string())
    }
}

fn gen_model(rng: &mut Rng, idx: usize) -> ModelCfg {
    let (file, eru) = MODELS[idx];
    // the declared rate unit decides how the model's number is read: any unit of the same energy kind is a valid declaration
    let eru = match eru {
        EnergyRateUnit::KilowattHoursPerMile | EnergyRateUnit::KilowattHoursPerKilometer | EnergyRateUnit::KilowattHoursPerMeter => *rng.pick(&[EnergyRateUnit::KilowattHoursPerMile, EnergyRateUnit::KilowattHoursPerMile, EnergyRateUnit::KilowattHoursPerKilometer, EnergyRateUnit::KilowattHoursPerMeter]),
        // liquid-fuel models: gasoline or diesel gallons
        _ => *rng.pick(&[EnergyRateUnit::GallonsGasolinePerMile, EnergyRateUnit::GallonsGasolinePerMile, EnergyRateUnit::GallonsDieselPerMile]),
    };
    ModelCfg {
        file,
        eru,
        interpolate: rng.chance(0.5),
        ideal: if rng.chance(0.7) { Some(rng.frange(0.01, 0.3)) } else { None },
        adjustment: if rng.chance(0.6) { Some(rng.frange(0.8, 1.6)) } else { None },
        cache: rng.chance(0.3),
    }
}

/// rate band of the model around `speed` (+-0.1 %), widened by 0.1 %
fn rate_band(rec: &PredictionModelRecord, speed: f64, su: SpeedUnit, grade: f64, gu: GradeUnit) -> Option<(f64, f64)> {
    let mut lo = f64::INFINITY;
    let mut hi = f64::NEG_INFINITY;
    for f in [0.999, 0.9995, 1.0, 1.0005, 1.001] {
        let (r, _) = rec.prediction_model.predict((Speed::new(speed * f), su), (Grade::new(grade), gu)).ok()?;
        lo = lo.min(r.as_f64());
        hi = hi.max(r.as_f64());
    }
    let m = lo.abs().max(hi.abs());
    Some((lo - 1e-3 * m - 1e-12, hi + 1e-3 * m + 1e-12))
}

fn rate_dist_unit(u: EnergyRateUnit) -> DistanceUnit {
    match u {
        EnergyRateUnit::KilowattHoursPerKilometer => DistanceUnit::Kilometers,
        EnergyRateUnit::KilowattHoursPerMeter => DistanceUnit::Meters,
        _ => DistanceUnit::Miles,
    }
}

fn case(rng: &mut Rng, rep: &mut Report) {
    let vtype = rng.below(3); // 0 ice, 1 bev, 2 phev
    let vname = ["ice", "bev", "phev"][vtype];
    let ne = rng.urange(1, 60);
    let su = *rng.pick(&U::SPEED_UNITS);
    let du = *rng.pick(&U::DISTANCE_UNITS[..3]);
    let tu = *rng.pick(&U::TIME_UNITS);
    let gu = *rng.pick(&U::GRADE_UNITS);
    // speeds on a 0.5 grid in their own unit, roughly 5..75 mph
    let smax = 120.0 / U::speed_si(su) * U::speed_si(SpeedUnit::KilometersPerHour);
    let speeds: Vec<f64> = (0..ne).map(|_| ((rng.frange(8.0, smax.max(9.0)) * 2.0).round() / 2.0).max(2.0)).collect();
    let lens_m: Vec<f64> = (0..ne).map(|_| if rng.chance(0.2) { rng.frange(5.0, 100.0) } else { rng.log_uniform(100.0, 50_000.0) }).collect();
    let steep = rng.chance(0.4);
    let grades_dec: Vec<f64> = (0..ne).map(|_| if steep && rng.chance(0.5) { rng.frange(-0.2, -0.05) } else { rng.frange(-0.2, 0.2) }).collect();
    let grades: Vec<f64> = grades_dec.iter().map(|g| g / U::grade_si(gu)).collect();
    let capacity = rng.log_uniform(0.3, 60.0);
    // the capacity may be declared in any energy unit; the value handed to the builder is the kWh figure in that unit by
    // the repo's own fuel-equivalence table (the same factor converts every energy delta, so the charge arithmetic in
    // kWh is unchanged)
    let cap_unit = *rng.pick(&[routee_compass_core::model::unit::EnergyUnit::KilowattHours, routee_compass_core::model::unit::EnergyUnit::KilowattHours, routee_compass_core::model::unit::EnergyUnit::GallonsGasoline, routee_compass_core::model::unit::EnergyUnit::GallonsDiesel]);
    let el_factor = routee_compass_core::model::unit::as_f64::AsF64::as_f64(&routee_compass_core::model::unit::EnergyUnit::KilowattHours.convert(&routee_compass_core::model::unit::Energy::new(1.0), &cap_unit));
    let cap_declared = routee_compass_core::model::unit::as_f64::AsF64::as_f64(&routee_compass_core::model::unit::EnergyUnit::KilowattHours.convert(&routee_compass_core::model::unit::Energy::new(capacity), &cap_unit));
    let start_soc = if rng.chance(0.2) { *rng.pick(&[0.0, 100.0]) } else { (rng.frange(0.0, 100.0) * 4.0).round() / 4.0 };
    let m1 = gen_model(rng, match vtype { 0 => 0, 1 => 1, _ => 2 }); // ice: camry, bev: bolt, phev depleting: volt cd
    let m2 = gen_model(rng, 3); // phev sustaining
    let dir = fresh_dir("c08");
    let sp = dir.join("speeds.txt");
    let gp = dir.join("grades.txt");
    let with_grades = rng.chance(0.9);
    let ok = std::fs::write(&sp, speeds.iter().map(|s| format!("{s:?}")).collect::<Vec<_>>().join("\n") + "\n").is_ok()
        && std::fs::write(&gp, grades.iter().map(|s| format!("{s:?}")).collect::<Vec<_>>().join("\n") + "\n").is_ok();
    if !ok {
        rep.inconclusive("cannot write tables".into());
        remove_dir(&dir);
        return;
    }
    let vehicle = match vtype {
        0 => {
            let mut v = m1.json(vname);
            v["type"] = json!("ice");
            v
        }
        1 => {
            let mut v = m1.json(vname);
            v["type"] = json!("bev");
            v["battery_capacity"] = json!(cap_declared);
            v["battery_capacity_unit"] = json!(cap_unit.to_string());
            v
        }
        _ => json!({"type": "phev", "name": vname, "battery_capacity": cap_declared, "battery_capacity_unit": cap_unit.to_string(), "charge_depleting": m1.json("cd"), "charge_sustaining": m2.json("cs")}),
    };
    let mut params = json!({
        "type": "energy_model",
        "time_model": {"type": "speed_table", "speed_table_input_file": sp.to_string_lossy(), "speed_unit": su.to_string(), "distance_unit": du.to_string(), "time_unit": tu.to_string()},
        "grade_table_grade_unit": gu.to_string(),
        "vehicles": [vehicle],
    });
    // the energy model's own distance / time units are independent of its time model's (whose units are the ones the
    // state features carry): the same, another one, or left to the defaults
    match rng.below(3) {
        0 => {
            params["distance_unit"] = json!(du.to_string());
            params["time_unit"] = json!(tu.to_string());
        }
        1 => {
            params["distance_unit"] = json!(rng.pick(&U::DISTANCE_UNITS).to_string());
            params["time_unit"] = json!(rng.pick(&U::TIME_UNITS).to_string());
        }
        _ => {}
    }
    if with_grades {
        params["grade_table_input_file"] = json!(gp.to_string_lossy());
    }
    let settings = json!({"params": params, "speeds": speeds, "lengths_m": lens_m, "grades": grades, "starting_soc_percent": start_soc});
    let builder = CompassAppBuilder::default();
    let service = catch(|| builder.build_traversal_model_service(&params));
    remove_dir(&dir);
    let service = match service {
        Ok(Ok(s)) => s,
        Ok(Err(e)) => {
            rep.violate("C08|EnergyModelBuilder|error", format!("well-formed energy model configuration refused: {e}"), || settings.clone());
            return;
        }
        Err(pm) => {
            rep.violate(&format!("C08|EnergyModelBuilder|{}", panic_sig(&pm)), pm, || settings.clone());
            return;
        }
    };
    // E6 starting charge validation
    if vtype > 0 {
        for bad in [json!(-0.5), json!(100.5), json!(1e9), json!("full"), json!(null), json!([50])] {
            rep.eval();
            let q = json!({"model_name": vname, "starting_soc_percent": bad});
            match catch(|| service.build(&q)) {
                Ok(Ok(_)) => rep.violate(&format!("C08|{vname}|invalid-starting-charge-accepted"), format!("E6 starting_soc_percent = {bad} was accepted"), || settings.clone()),
                Ok(Err(_)) => rep.count("invalid_starting_charges_rejected", 1),
                Err(pm) => rep.violate(&format!("C08|{vname}|{}", panic_sig(&pm)), format!("E6 starting_soc_percent = {bad}: {pm}"), || settings.clone()),
            }
        }
    }
    rep.eval();
    let query = if vtype == 0 { json!({"model_name": vname}) } else { json!({"model_name": vname, "starting_soc_percent": start_soc}) };
    let model = match catch(|| service.build(&query)) {
        Ok(Ok(m)) => m,
        Ok(Err(e)) => {
            rep.violate(&format!("C08|{vname}|valid-query-refused"), format!("E6 a starting charge of {start_soc} % was refused: {e}"), || settings.clone());
            return;
        }
        Err(pm) => {
            rep.violate(&format!("C08|{vname}|{}", panic_sig(&pm)), pm, || settings.clone());
            return;
        }
    };
    let sm = StateModel::new(model.state_features());
    let names: Vec<String> = sm.indexed_iter().map(|(_, (n, _))| n.clone()).collect();
    let slot = |n: &str| names.iter().position(|x| x == n);
    let (i_el, i_liq, i_soc, i_dist, i_time) = (slot("energy_electric"), slot("energy_liquid"), slot("battery_state"), slot("distance"), slot("time"));
    let mut state: Vec<StateVar> = match sm.initial_state() {
        Ok(s) => s,
        Err(e) => {
            rep.violate(&format!("C08|{vname}|initial-state-error"), e.to_string(), || settings.clone());
            return;
        }
    };
    if let Some(i) = i_soc {
        if !rel_close(state[i].0, start_soc, 1e-9, 1e-9) {
            rep.violate(&format!("C08|{vname}|initial-charge-not-honoured"), format!("E6 initial battery_state {} for starting_soc_percent {start_soc}", state[i].0), || settings.clone());
            return;
        }
    }
    let rec1 = match m1.load() {
        Ok(r) => r,
        Err(e) => {
            rep.inconclusive(format!("oracle copy of the model failed to load: {e}"));
            return;
        }
    };
    let rec2 = if vtype == 2 { m2.load().ok() } else { None };
    let adj = |m: &ModelCfg| m.adjustment.unwrap_or(1.0);
    let mut clamps = 0;
    let mut sign_changes = 0;
    let mut mode_switches = 0;
    let mut last_sign = 0i32;
    let mut last_mode: Option<bool> = None;
    let v0 = Vertex::new(0, -105.0, 39.7);
    let v1 = Vertex::new(1, -105.0, 39.7);
    let mut trace = vec![];
    for e in 0..ne {
        rep.eval();
        let edge = Edge::new(e, 0, 1, lens_m[e]);
        let before: Vec<f64> = state.iter().map(|s| s.0).collect();
        let replay = || {
            let mut r = settings.clone();
            r["edge_index"] = json!(e);
            r["state_before"] = json!(before);
            r
        };
        match catch(|| model.traverse_edge((&v0, &edge, &v1), &mut state, &sm)) {
            Ok(Ok(())) => {}
            Ok(Err(err)) => {
                rep.violate(&format!("C08|{vname}|traverse-error"), format!("edge {e} (len {} m, speed {} {su}, grade {}): {err}", lens_m[e], speeds[e], grades[e]), replay);
                return;
            }
            Err(pm) => {
                rep.violate(&format!("C08|{vname}|{}", panic_sig(&pm)), pm, replay);
                return;
            }
        }
        let after: Vec<f64> = state.iter().map(|s| s.0).collect();
        // distance and time bookkeeping of the wrapped time model
        if let (Some(id), Some(it)) = (i_dist, i_time) {
            let dd = after[id] - before[id];
            let dt = after[it] - before[it];
            let pd = lens_m[e] / U::dist_si(du);
            let pt = lens_m[e] / (speeds[e] * U::speed_si(su)) / U::time_si(tu);
            if !rel_close(dd, pd, 1e-3, 1e-9) || !rel_close(dt, pt, 1e-3, 1e-12) {
                rep.violate(&format!("C08|{vname}|time-model-bookkeeping"), format!("edge {e}: distance +{dd} (expected {pd} {du}), time +{dt} (expected {pt} {tu})"), replay);
                return;
            }
        }
        let g = if with_grades { grades[e] } else { 0.0 };
        let soc_before = i_soc.map(|i| before[i]);
        let d_el = i_el.map(|i| after[i] - before[i]).unwrap_or(0.0);
        let d_liq = i_liq.map(|i| after[i] - before[i]).unwrap_or(0.0);
        // which model applies
        let (rec, mcfg, d_obs, other, mode_electric) = match vtype {
            0 => (&rec1, &m1, d_liq, d_el, false),
            1 => (&rec1, &m1, d_el, d_liq, true),
            _ => {
                if soc_before.unwrap_or(0.0) > 0.0 {
                    (&rec1, &m1, d_el, d_liq, true)
                } else {
                    (rec2.as_ref().unwrap_or(&rec1), &m2, d_liq, d_el, false)
                }
            }
        };
        // E4 only one energy source per edge
        if other != 0.0 {
            rep.violate(&format!("C08|{vname}|both-energy-sources-on-one-edge"), format!("E4 edge {e} entered with charge {:?} %: electric {d_el:+}, liquid {d_liq:+}", soc_before), replay);
            return;
        }
        // E1 energy = rate * adjustment * length (in the rate's distance unit)
        let band = match rate_band(rec, speeds[e], su, g, gu) {
            Some(b) => b,
            None => {
                rep.inconclusive("oracle prediction failed".into());
                return;
            }
        };
        let dist_in_rate_unit = lens_m[e] / U::dist_si(rate_dist_unit(mcfg.eru));
        // the electric energy feature is kept in the battery's declared unit
        let k = adj(mcfg) * dist_in_rate_unit * if mode_electric { el_factor } else { 1.0 };
        let (elo, ehi) = {
            let (a, b) = (band.0 * k, band.1 * k);
            let (a, b) = if a <= b { (a, b) } else { (b, a) };
            // 0.1 % for the unit table on the distance
            (a - 1e-3 * a.abs() - 1e-15, b + 1e-3 * b.abs() + 1e-15)
        };
        // the state accumulates: compare the delta with a tolerance for cancellation at the accumulated magnitude
        let acc = if mode_electric { i_el.map(|i| before[i].abs()) } else { i_liq.map(|i| before[i].abs()) }.unwrap_or(0.0);
        let slack = 1e-12 * acc.max(1.0);
        // the bundled models are random forests: piecewise constant with cells far narrower than the five samples of the
        // band. before calling an energy wrong, look for it among the model's values on a fine scan of the same +-0.1 %
        // speed window (2001 points): the energy is right if some speed in the window explains it
        let explained_by_fine_scan = |obs: f64| -> bool {
            (-1000..=1000).any(|i| {
                let f = 1.0 + i as f64 * 1e-6;
                match rec.prediction_model.predict((Speed::new(speeds[e] * f), su), (Grade::new(g), gu)) {
                    Ok((r, _)) => {
                        let want = r.as_f64() * k;
                        (obs - want).abs() <= 1e-3 * want.abs() + 1e-15 + slack
                    }
                    Err(_) => false,
                }
            })
        };
        if (d_obs < elo - slack || d_obs > ehi + slack) && !explained_by_fine_scan(d_obs) {
            rep.violate(
                &format!("C08|{vname}|edge-energy-off|{}", if mcfg.interpolate { "interpolated" } else { "smartcore" }),
                format!("E1 edge {e} (len {} m, speed {} {su}, grade {g} {gu}): energy {d_obs:+}, expected within [{elo}, {ehi}] (rate band {:?}, adjustment {}, distance {dist_in_rate_unit})", lens_m[e], speeds[e], band, adj(mcfg)),
                replay,
            );
            return;
        }
        // E3 charge arithmetic from the observed electric energy
        if let (Some(i), Some(s0)) = (i_soc, soc_before) {
            let want = (s0 - 100.0 * d_el / cap_declared).clamp(0.0, 100.0);
            if !rel_close(after[i], want, 1e-9, 1e-9) {
                rep.violate(&format!("C08|{vname}|charge-arithmetic"), format!("E3 edge {e}: charge {s0} % -> {} %, electric energy {d_el} of capacity {cap_declared} {cap_unit} gives {want} %", after[i]), replay);
                return;
            }
            if !(0.0..=100.0).contains(&after[i]) {
                rep.violate(&format!("C08|{vname}|charge-out-of-range"), format!("E3 charge {} %", after[i]), replay);
                return;
            }
            if (want == 0.0 || want == 100.0) && (s0 - 100.0 * d_el / cap_declared != want) {
                clamps += 1;
            }
        }
        let sg = if d_obs > 0.0 { 1 } else if d_obs < 0.0 { -1 } else { 0 };
        if sg != 0 && last_sign != 0 && sg != last_sign {
            sign_changes += 1;
        }
        if sg != 0 {
            last_sign = sg;
        }
        if vtype == 2 {
            if let Some(m) = last_mode {
                if m != mode_electric {
                    mode_switches += 1;
                }
            }
            last_mode = Some(mode_electric);
        }
        if trace.len() < 4 {
            trace.push(json!({"len_m": lens_m[e], "speed": speeds[e], "grade": g, "energy": d_obs, "charge_after": i_soc.map(|i| after[i])}));
        }
        rep.count("edges_traversed", 1);
    }
    // E5 best-case estimate
    {
        rep.eval();
        let a = Vertex::new(0, -105.0, 39.7);
        let b = Vertex::new(1, -105.0 + rng.frange(0.01, 0.3) as f32, 39.7 + rng.frange(0.01, 0.3) as f32);
        let mut s = sm.initial_state().unwrap_or_default();
        let before: Vec<f64> = s.iter().map(|x| x.0).collect();
        if let Ok(Ok(())) = catch(|| model.estimate_traversal((&a, &b), &mut s, &sm)) {
            let d_m = crate::gen::net::hav_m_f64((a.x() as f64, a.y() as f64), (b.x() as f64, b.y() as f64)); // the harness's own great circle
            let ideal = rec1.ideal_energy_rate.as_f64();
            let want = ideal * d_m / U::dist_si(rate_dist_unit(m1.eru)) * if vtype == 0 { 1.0 } else { el_factor };
            let idx = if vtype == 0 { i_liq } else { i_el };
            if let Some(i) = idx {
                let got = s[i].0 - before[i];
                if !rel_close(got, want, 2e-3, 1e-12) {
                    rep.violate(&format!("C08|{vname}|estimate-not-ideal-rate-times-distance"), format!("E5 estimate added {got}, ideal rate {ideal} x {d_m} m gives {want}"), || settings.clone());
                }
                rep.count("estimates_checked", 1);
            }
        }
    }
    rep.seen("vehicles", format!("{vname}|{}|{}", if m1.interpolate { "interpolated" } else { "smartcore" }, if m1.cache { "cache" } else { "nocache" }));
    rep.seen("unit_configurations", format!("{su},{du},{tu},{gu}"));
    rep.count("clamp_events", clamps);
    rep.count("energy_sign_changes", sign_changes);
    rep.count("phev_mode_switches", mode_switches);
    if clamps > 0 || sign_changes > 0 || mode_switches > 0 {
        rep.nontrivial(hash_str(&format!("{vname}|{:?}|{:?}|{capacity}|{start_soc}|{su}{du}{tu}{gu}", speeds, lens_m)));
        rep.sample(|| json!({"vehicle": vname, "edges": ne, "units": [su.to_string(), du.to_string(), tu.to_string(), gu.to_string()], "capacity_kwh": capacity, "starting_soc_percent": start_soc, "clamp_events": clamps, "energy_sign_changes": sign_changes, "phev_mode_switches": mode_switches, "first_edges": trace}));
    }
}

pub fn run(tier: Tier, seed: u64) -> MonOut {
    let saved = silence_stderr();
    let n = tier.n(8_000, 300_000);
    let rep = par_cases(seed, n, |_i, rng, rep| case(rng, rep));
    crate::appgen::restore_stderr(saved);
    MonOut {
        report: rep,
        rule: "energy traversal models built through the real energy-model builder (JSON parameters -> EnergyModelBuilder -> EnergyModelService -> EnergyTraversalModel) over the bundled models (ICE Camry, BEV Bolt, PHEV Volt depleting + sustaining), raw smartcore or interpolated, with/without ideal rate, real-world adjustment and prediction cache, every speed x distance x time x grade unit configuration; sequences of 1..60 edges (5 m..50 km, speeds on a 0.5 grid, grades -20..+20 %, 40 % biased to steep downhill), battery capacity 0.3..60 kWh, starting charge 0..100 %; invalid starting charges (negative, > 100, huge, string, null, array). per edge: time-model bookkeeping, single energy source, energy within the model's rate band x adjustment x length, charge arithmetic and range, then the best-case estimate. non-trivial = a sequence with a clamp event, a sign change of the edge energy, or a PHEV mode switch; distinct by sequence and configuration".into(),
        assumptions: vec![
            "the monitor's own copy of the same prediction model (same file, same parameters) is ground truth for the rate; the accepted band is the model's range over speed x (1 +- 0.1 %) widened by 0.1 % because the traversal model reconstructs speed from length / time through the unit table".into(),
            "battery capacity is drawn in kWh and declared in kWh, gasoline gallons or diesel gallons by the repo's own fuel-equivalence table".into(),
            "charge arithmetic is checked exactly (1e-9) from the observed electric energy".into(),
        ],
        floor: 60,
        exhaustive: false,
        explanation: "sampled edge sequences and configurations".into(),
    }
}

//! C05 — 'no path' is reported exactly when the destination is unreachable; destination-less
//! searches return exactly the reachable set, labelled with least costs.
use super::{MonOut, Tier};
use crate::hooks::Caught;
use crate::oracle::graph::{dijkstra, reachable};
use crate::oracle::route::{route_ids, Od};
use crate::oracle::units::rel_close;
use crate::par::par_cases;
use crate::report::Report;
use crate::restrict::{gen_edge_local, query_with};
use crate::rng::{hash_str, Rng};
use crate::run::{err_class, gen_plain_alg, run_search, step_budget};
use crate::searchcase::independent_edge_costs;
use crate::world::{gen_world, WorldParams};
use routee_compass_core::algorithm::search::search_error::SearchError;
use routee_compass_core::algorithm::search::util::edge_cut_frontier_model::EdgeCutFrontierModel;
use routee_compass_core::model::network::{EdgeId, VertexId};
use routee_compass_core::model::unit::as_f64::AsF64;
use serde_json::json;
use std::collections::HashSet;
use std::sync::Arc;

fn case(tier: Tier, rng: &mut Rng, rep: &mut Report) {
    let mut p = WorldParams::default();
    p.net.max_v = if tier.thorough { 50 } else { 22 };
    p.net.p_blocks = 0.6;
    p.net.metric = rng.chance(0.5);
    // stacked vertices (all at one coordinate): distinct vertices at zero great-circle distance from the destination
    p.net.colocated = !p.net.metric && rng.fork(0xC05C).chance(0.25);
    p.allow_turn_delay = false;
    p.surcharges = rng.chance(0.3);
    let mut world = gen_world(rng, &p);
    // credits: a negative per-edge network rate larger than the edge's own cost on a share of the edges. the charged
    // cost of such an edge is the positive floor (C07), so reachability and termination are as on any other network
    if rng.chance(0.15) {
        let feature = world.cost.weights.iter().find(|w| w.1 > 0.0).map(|w| w.0.clone());
        if let Some(f) = feature {
            let mut t = std::collections::HashMap::new();
            for e in 0..world.net.ne() {
                if rng.chance(0.4) {
                    t.insert(e, -rng.log_uniform(1e3, 1e9));
                }
            }
            world.cost.edge_surcharge.push((f, t));
            rep.count("worlds_with_credits_(floored_edge_costs)", 1);
        }
    }
    let net = world.net.clone();
    let r = gen_edge_local(rng, &net);
    world.frontier = r.cfg.clone();
    let query = query_with(&r.query_fields);
    let via_files = rng.chance(0.2);
    let graph = match crate::gen::net::graph_for(&net, via_files) {
        Ok(g) => g,
        Err(e) => {
            rep.violate("graph-load|error", format!("the network files written by the generator were refused: {e}"), || net.to_json());
            return;
        }
    };
    rep.count(if via_files { "graphs_loaded_from_files" } else { "graphs_built_in_memory" }, 1);
    let mut si = match world.si(graph, &query) {
        Ok(s) => s,
        Err(e) => {
            rep.violate("C05|frontier-build|error", format!("a well-formed restriction configuration was refused: {e}"), || json!({"world": world.to_json(), "query": query}));
            return;
        }
    };
    // sometimes an additional cut set (as the alternative-route searches use)
    let mut allowed = r.allowed.clone();
    let mut cut: Vec<usize> = vec![];
    if rng.chance(0.3) {
        for e in 0..net.ne() {
            if rng.chance(0.15) {
                cut.push(e);
                allowed[e] = false;
            }
        }
        let set: HashSet<EdgeId> = cut.iter().map(|e| EdgeId(*e)).collect();
        si.frontier_model = Arc::new(EdgeCutFrontierModel::new(si.frontier_model.clone(), set));
    }
    let cost = match independent_edge_costs(&world, &si) {
        Ok(c) => c,
        Err(e) => {
            rep.inconclusive(format!("could not measure per-edge state changes: {e}"));
            return;
        }
    };
    let kind = r.kinds[0];
    rep.seen("restriction_kinds", format!("{kind}{}", if cut.is_empty() { "" } else { "+cut" }));
    for _ in 0..10 {
        rep.eval();
        let alg = gen_plain_alg(rng, true);
        let edge_oriented = rng.chance(0.3);
        let with_dest = rng.chance(0.7);
        let reverse = !edge_oriented && rng.chance(0.45);
        let od = if edge_oriented {
            // origin and destination edges themselves are kept inside the permitted set
            let ok: Vec<usize> = (0..net.ne()).filter(|e| allowed[*e]).collect();
            if ok.len() < 2 {
                continue;
            }
            let o = *rng.pick(&ok);
            let d = *rng.pick(&ok);
            if o == d {
                continue;
            }
            Od::Edge(o, if with_dest { Some(d) } else { None })
        } else {
            let o = rng.below(net.nv());
            let d = rng.below(net.nv());
            if o == d {
                continue;
            }
            Od::Vertex(o, if with_dest { Some(d) } else { None })
        };
        let (out, _ctx) = run_search(&alg, &si, od, reverse, &query, step_budget(net.nv(), net.ne(), 1), false);
        let orient = if edge_oriented { "edge" } else { "vertex" };
        let dirn = if reverse { "reverse" } else { "forward" };
        let replay = || json!({"world": world.to_json(), "query": query, "cut_edges": cut, "algorithm": alg.to_json(), "od": format!("{:?}", od), "direction": dirn, "allowed_edges_oracle": allowed});
        let sig = format!("C05|{}|{orient}|{dirn}", alg.family());
        let res = match out {
            Err(Caught::Budget(b)) => {
                rep.violate(&format!("{sig}|step-budget-exceeded"), format!("{:?}", b), replay);
                continue;
            }
            Err(Caught::Panic(m)) => {
                rep.violate(&format!("{sig}|{}", crate::hooks::panic_sig(&m)), format!("search panicked: {m}"), replay);
                continue;
            }
            Ok(r) => r,
        };
        // search root and reachability in search direction
        let root = match od {
            Od::Vertex(s, _) => s,
            Od::Edge(oe, _) => net.edges[oe].dst,
        };
        let reach = reachable(&net, &allowed, root, !reverse);
        match od {
            Od::Vertex(_, Some(_)) | Od::Edge(_, Some(_)) => {
                let (target, adjacent) = match od {
                    Od::Vertex(_, Some(t)) => (t, false),
                    Od::Edge(_, Some(de)) => (net.edges[de].src, net.edges[de].src == root),
                    _ => unreachable!(),
                };
                let is_reachable = adjacent || reach[target];
                match (&res, is_reachable) {
                    (Ok(r), true) => {
                        if r.routes.first().map(|x| x.is_empty()).unwrap_or(true) {
                            rep.violate(&format!("{sig}|P1-empty-route-for-reachable"), "P1 destination reachable but the route is empty / missing".into(), replay);
                            continue;
                        }
                        // every route edge permitted
                        let ids = route_ids(&r.routes[0]);
                        let mid: Vec<usize> = match od {
                            Od::Edge(..) if ids.len() >= 2 => ids[1..ids.len() - 1].to_vec(),
                            _ => ids.clone(),
                        };
                        if let Some(e) = mid.iter().find(|e| **e < allowed.len() && !allowed[**e]) {
                            rep.violate(&format!("{sig}|route-through-forbidden-edge|{kind}"), format!("route {ids:?} uses forbidden edge {e}"), replay);
                            continue;
                        }
                        rep.count("reachable_confirmed", 1);
                    }
                    (Ok(r), false) => {
                        rep.violate(&format!("{sig}|P2-ok-for-unreachable"), format!("P2 destination unreachable through permitted edges but Ok was returned with routes {:?}", r.routes.iter().map(|x| route_ids(x)).collect::<Vec<_>>()), replay);
                        continue;
                    }
                    (Err(e), true) => {
                        rep.violate(&format!("{sig}|P1-error-for-reachable|{}", err_class(e)), format!("P1 destination reachable but the search failed: {e}"), replay);
                        continue;
                    }
                    (Err(e), false) => {
                        let ok = matches!(e, SearchError::NoPathExistsBetweenVertices(_, _) | SearchError::NoPathExistsBetweenEdges(_, _));
                        if !ok {
                            rep.violate(&format!("{sig}|P2-wrong-error-for-unreachable|{}", err_class(e)), format!("P2 unreachable destination reported as: {e}"), replay);
                            continue;
                        }
                        rep.count("unreachable_confirmed", 1);
                    }
                }
                rep.nontrivial(hash_str(&format!("{}|{:?}|{reverse}|{is_reachable}|{}|{kind}", net.ne(), od, alg.family())));
                if !is_reachable {
                    rep.sample(|| json!({"algorithm": alg.name(), "od": format!("{:?}", od), "direction": dirn, "restriction": kind, "forbidden_edges": allowed.iter().filter(|a| !**a).count(), "edges": net.ne(), "outcome": "no path reported, reference agrees"}));
                }
            }
            _ => {
                // no destination: P3 tree keys = reachable set minus root; P4 labels = least costs
                let r = match res {
                    Ok(r) => r,
                    Err(e) => {
                        rep.violate(&format!("{sig}|no-destination-error|{}", err_class(&e)), format!("destination-less search failed: {e}"), replay);
                        continue;
                    }
                };
                let tree = match r.trees.first() {
                    Some(t) => t,
                    None => {
                        rep.violate(&format!("{sig}|no-tree"), "destination-less search returned no tree".into(), replay);
                        continue;
                    }
                };
                let mut keys: HashSet<usize> = tree.keys().map(|v| v.0).collect();
                if let Od::Edge(oe, _) = od {
                    // the entry injected for the origin edge is keyed by the root
                    if tree.get(&VertexId(root)).map(|b| b.edge_traversal.edge_id.0 == oe).unwrap_or(false) {
                        keys.remove(&root);
                    }
                }
                let expect: HashSet<usize> = (0..net.nv()).filter(|v| reach[*v] && *v != root).collect();
                if keys != expect {
                    let missing: Vec<&usize> = expect.difference(&keys).take(5).collect();
                    let extra: Vec<&usize> = keys.difference(&expect).take(5).collect();
                    rep.violate(&format!("{sig}|P3-tree-not-reachable-set"), format!("P3 tree misses reachable vertices {missing:?} / contains unreachable {extra:?}"), replay);
                    continue;
                }
                // P4 accumulated label costs
                if let Some(cost) = &cost {
                    let dist = dijkstra(&net, cost, &allowed, root, !reverse);
                    let mut bad = None;
                    for v in &expect {
                        let mut cur = *v;
                        let mut acc = 0.0;
                        let mut steps = 0;
                        while cur != root && steps <= tree.len() {
                            match tree.get(&VertexId(cur)) {
                                Some(b) => {
                                    acc += b.edge_traversal.total_cost().as_f64();
                                    cur = b.terminal_vertex.0;
                                }
                                None => break,
                            }
                            steps += 1;
                        }
                        // a floored edge is charged 1e-10 up to the rounding of (access share) + (floored total - access
                        // share), a few per cent of the floor when the access share is large (offset rates): allow a tenth
                        // of the floor per tree edge on top of the relative tolerance
                        if cur != root || !rel_close(acc, dist[*v], 1e-9, 1e-12 + 1e-11 * steps as f64) {
                            bad = Some((*v, acc, dist[*v]));
                            break;
                        }
                    }
                    if let Some((v, acc, d)) = bad {
                        rep.violate(&format!("{sig}|P4-label-not-least-cost"), format!("P4 vertex {v}: accumulated cost along the tree {acc}, least cost {d}"), replay);
                        continue;
                    }
                    rep.count("tree_labels_confirmed", expect.len() as u64);
                }
                rep.count("trees_confirmed", 1);
                if expect.len() >= 3 && expect.len() + 1 < net.nv() {
                    rep.nontrivial(hash_str(&format!("t{}|{:?}|{reverse}|{}|{kind}", net.ne(), od, alg.family())));
                    rep.sample(|| json!({"algorithm": alg.name(), "od": format!("{:?}", od), "direction": dirn, "restriction": kind, "vertices": net.nv(), "reachable": expect.len(), "outcome": "tree key set equals reference reachable set, labels equal least costs"}));
                }
            }
        }
        rep.seen("configurations", format!("{}|{orient}|{dirn}|{}", alg.family(), if with_dest { "dest" } else { "nodest" }));
    }
}

pub fn run(tier: Tier, seed: u64) -> MonOut {
    let n = tier.n(40_000, 1_500_000);
    let rep = par_cases(seed, n, |_i, rng, rep| case(tier, rng, rep));
    MonOut {
        report: rep,
        rule: "generated networks with 60 % probability of several weak blocks joined by one-way bridges, dead ends and isolated vertices; edge-local restrictions (none / road classes via numeric or mapped query sets / vehicle restrictions in mixed units / both combined, optionally plus an edge cut set); 10 queries per network: Dijkstra or A* with any weight factor, vertex or edge oriented, forward or reverse, with and without destination. oracle = BFS / Dijkstra over the permitted edges of the generator's edge list. non-trivial = any destination query (reachable or not), and destination-less trees that cover >= 3 but not all vertices; distinct by (network, od, direction, algorithm, restriction)".into(),
        assumptions: vec![
            "for edge-oriented queries the origin and destination edges themselves are chosen among permitted edges (the wrappers never consult the frontier for them; the statement does not say they must)".into(),
            "vehicle limits are placed >= 1 % away from the vehicle's value, or exactly equal in the same unit, so unit-table inaccuracy cannot decide".into(),
            "label costs (P4) use independently computed per-edge costs and no access model".into(),
        ],
        floor: 300,
        exhaustive: false,
        explanation: "sampled networks/restrictions; reachability decided by a reference graph search".into(),
    }
}

//! C06 — one response per query, independent of parallelism, order and schedule.
use super::{MonOut, Tier};
use crate::appgen::{build_app, silence_stderr, AppSpec, EnergySpec, InputPlugin};
use crate::world::TravCfg;
use routee_compass_core::model::cost::vehicle::vehicle_cost_rate::VehicleCostRate;
use crate::batch::{expansion_key, gen_batch, gen_batch_spec, has_plugin, project, request_superset, BatchWorldOpts, Recorder};
use crate::hooks::{catch, panic_sig, set_app_sink};
use crate::report::Report;
use crate::rng::{hash_str, Rng};
use routee_compass::app::compass::compass_app_ops::apply_load_balancing_policy;
use serde_json::{json, Value};
use std::collections::{BTreeMap, BTreeSet};
use std::sync::Arc;

fn multiset(responses: &[Value]) -> BTreeMap<String, Vec<String>> {
    let mut m: BTreeMap<String, Vec<String>> = BTreeMap::new();
    for r in responses {
        m.entry(expansion_key(r)).or_default().push(project(r).to_string());
    }
    for v in m.values_mut() {
        v.sort();
    }
    m
}

fn first_difference(a: &BTreeMap<String, Vec<String>>, b: &BTreeMap<String, Vec<String>>) -> String {
    for (k, v) in a {
        match b.get(k) {
            None => return format!("{k}: present alone, absent in the batch"),
            Some(w) if w != v => return format!("{k}: alone {} vs batch {}", v.join(" ; ").chars().take(300).collect::<String>(), w.join(" ; ").chars().take(300).collect::<String>()),
            _ => {}
        }
    }
    for k in b.keys() {
        if !a.contains_key(k) {
            return format!("{k}: present in the batch, absent alone");
        }
    }
    String::new()
}

fn case(tier: Tier, case_no: usize, rng: &mut Rng, rep: &mut Report) {
    let opts = BatchWorldOpts::default();
    let mut spec: AppSpec = gen_batch_spec(rng, &opts);
    // energy slice: a vehicle model whose prediction cache is shared by all queries of a run. table values sit on the
    // cache's key grid (few distinct speeds >= 1 apart, grades at -4..4 key steps around zero), where distinct inputs have
    // distinct keys and the cache has to be transparent; the reference below is the same application without the cache
    if let (TravCfg::Speed { speeds, .. }, true) = (&mut spec.world.trav, rng.chance(0.3)) {
        let ne = speeds.len();
        let n_speeds = rng.urange(2, 5);
        let palette: Vec<f64> = (0..n_speeds).map(|i| 15.0 + 7.0 * i as f64 + 0.5 * rng.below(8) as f64).collect();
        for s in speeds.iter_mut() {
            *s = *rng.pick(&palette);
        }
        let pg = *rng.pick(&[2i32, 3]);
        let step = 10f64.powi(-pg);
        let vehicle = ["ice", "bev", "phev"][rng.below(3)].to_string();
        let grades: Vec<f64> = (0..ne).map(|_| (rng.below(9) as f64 - 4.0) * step).collect();
        spec.energy = Some(EnergySpec { vehicle: vehicle.clone(), grades, cache: rng.chance(0.8), capacity_kwh: rng.frange(0.5, 60.0), cache_cfg: (*rng.pick(&[2usize, 8, 64]), *rng.pick(&[1i32, 2, 3]), pg), adjustment: if rng.chance(0.5) { Some((rng.frange(0.8, 1.6) * 100.0).round() / 100.0) } else { None } });
        spec.world.access = crate::world::AccessCfg::None;
        let e = if vehicle == "ice" { "energy_liquid" } else { "energy_electric" };
        spec.world.cost.weights.push((e.to_string(), 1.0));
        spec.world.cost.vehicle_rates.push((e.to_string(), VehicleCostRate::Raw));
    }
    let cached = spec.energy.as_ref().map(|e| e.cache).unwrap_or(false);
    let built = match catch(|| build_app(&spec, "c06")) {
        Ok(Ok(b)) => b,
        Ok(Err(e)) => {
            rep.violate("C06|CompassApp::try_from|load-error", format!("well-formed configuration refused: {}", e.lines().next().unwrap_or("")), || json!({"toml": e}));
            return;
        }
        Err(pm) => {
            rep.violate(&format!("C06|CompassApp::try_from|{}", panic_sig(&pm)), pm, || json!({}));
            return;
        }
    };
    // the reference for a cache-enabled application is the same configuration with the cache switched off
    let reference_app = if cached {
        let mut s2 = spec.clone();
        if let Some(e) = s2.energy.as_mut() {
            e.cache = false;
        }
        match catch(|| build_app(&s2, "c06ref")) {
            Ok(Ok(b)) => Some(b),
            _ => {
                rep.inconclusive("the cache-less reference application could not be built".into());
                return;
            }
        }
    } else {
        None
    };
    let n = if rng.chance(0.2) { rng.urange(1, 6) } else { rng.urange(6, if tier.thorough { 300 } else { 120 }) };
    let mut batch = gen_batch(rng, &spec, n, 0.15, &format!("c{case_no}q"));
    if let Some(en) = &spec.energy {
        for (q, _, _) in batch.iter_mut() {
            if let Some(o) = q.as_object_mut() {
                o.insert("model_name".into(), json!(en.vehicle));
                if en.vehicle != "ice" {
                    o.insert("starting_soc_percent".into(), json!((rng.frange(0.0, 100.0) * 2.0).round() / 2.0));
                }
            }
        }
        rep.count(if cached { "cases_with_shared_prediction_cache" } else { "cases_with_energy_model_without_cache" }, 1);
    }
    let queries: Vec<Value> = batch.iter().map(|b| b.0.clone()).collect();
    let plugins: Vec<String> = spec.input_plugins.iter().map(|p| format!("{:?}", p).split([' ', '{', '(']).next().unwrap_or("").to_string()).collect();
    let base_replay = json!({"toml": built.toml, "batch": queries, "world": spec.world.to_json()});
    // ---- reference: every query alone, parallelism 1, no delays ----
    set_app_sink(None);
    let mut alone: Vec<Value> = vec![];
    for (q, m, kind) in batch.iter_mut() {
        rep.eval();
        let ref_app = reference_app.as_ref().map(|b| &b.app).unwrap_or(&built.app);
        let r = catch(|| ref_app.run(vec![q.clone()], Some(&json!({"parallelism": 1}))));
        match r {
            Err(pm) => {
                rep.violate(&format!("C06|alone|{}|{}", panic_sig(&pm), kind), format!("a single query made run() panic: {pm}"), || json!({"toml": built.toml, "query": q}));
                return;
            }
            Ok(Err(e)) => {
                rep.violate(&format!("C06|alone|run-returns-err|{kind}"), format!("B4 a single failing query made run() return Err: {e}"), || json!({"toml": built.toml, "query": q}));
                return;
            }
            Ok(Ok(v)) => {
                if v.len() != *m {
                    let kind: &str = kind;
                    let after_grid: Vec<&String> = plugins.iter().skip_while(|p| *p != "GridSearch").skip(1).collect();
                    // root cause observable here: a plugin placed after grid_search failed on an expanded query and the
                    // pipeline returned that single error instead of one response per expansion
                    let lost = kind == "grid" && !after_grid.is_empty() && v.len() == 1 && v[0].get("error").is_some();
                    rep.violate(
                        &if lost { "C06|input-plugins|grid-expansion-collapses-to-one-error-when-a-later-plugin-fails".to_string() } else { format!("C06|alone|response-count|{kind}|plugins-after-grid={}", if after_grid.is_empty() { "none".to_string() } else { after_grid.iter().map(|s| s.as_str()).collect::<Vec<_>>().join("+") }) },
                        format!("B1 {} responses for a query that expands to {m}: {}", v.len(), v.iter().map(|x| x.to_string().chars().take(160).collect::<String>()).collect::<Vec<_>>().join(" | ")),
                        || json!({"toml": built.toml, "query": q}),
                    );
                    if !lost {
                        return;
                    }
                    // listed finding: go on with what the application actually answers for this query
                    *m = v.len();
                }
                for r in &v {
                    let req = r.get("request").cloned().unwrap_or(Value::Null);
                    // non-object queries are reported inside the error text (the request field then holds a placeholder)
                    let ok = request_superset(&req, q) || (!q.is_object() && r.get("error").is_some());
                    if !ok {
                        rep.violate(&format!("C06|alone|request-not-echoed|{kind}"), format!("B2 response request {} does not carry the submitted query {}", req.to_string().chars().take(200).collect::<String>(), q.to_string().chars().take(200).collect::<String>()), || json!({"toml": built.toml, "query": q}));
                        return;
                    }
                }
                alone.extend(v);
            }
        }
    }
    // ---- the weight estimate only steers the load balancer: a query answers the same whatever well-formed number
    // its weight field holds, and however that number is spelled (3 or 3.0) ----
    let weight_col = spec.input_plugins.iter().find_map(|p| match p {
        InputPlugin::LoadBalancerNumeric { column } => Some(column.clone().unwrap_or_else(|| "query_weight_estimate".to_string())),
        _ => None,
    });
    if let Some(col) = weight_col {
        let ref_app = reference_app.as_ref().map(|b| &b.app).unwrap_or(&built.app);
        let cands: Vec<usize> = batch.iter().enumerate().filter(|(_, b)| b.2 == "valid" && b.0.get(&col).map(|w| w.is_number()).unwrap_or(false)).map(|(i, _)| i).collect();
        for _ in 0..cands.len().min(4) {
            let q = &batch[*rng.pick(&cands)].0;
            let mut twin = q.clone();
            let spellings = [json!(3), json!(40u64), json!(0), json!(2.5), json!(1_000_000u64), json!(7.0), json!(1e3)];
            let w = rng.pick(&spellings).clone();
            if w.to_string() == q[&col].to_string() {
                continue;
            }
            twin[&col] = w;
            rep.eval();
            let a = catch(|| ref_app.run(vec![q.clone()], Some(&json!({"parallelism": 1}))));
            let b = catch(|| ref_app.run(vec![twin.clone()], Some(&json!({"parallelism": 1}))));
            if let (Ok(Ok(a)), Ok(Ok(b))) = (a, b) {
                let d = first_difference(&multiset(&a), &multiset(&b));
                if !d.is_empty() {
                    rep.violate("C06|load-balancer|response-depends-on-the-weight-estimate", format!("B3 the same query with weight {} and with weight {} answers differently: {d}", q[&col], twin[&col]), || json!({"toml": built.toml, "query": q, "twin": twin}));
                    return;
                }
                rep.count("weight_estimate_twins_confirmed", 1);
            }
        }
    }
    let expected_total: usize = batch.iter().map(|b| b.1).sum();
    let reference = multiset(&alone);
    let n_err = alone.iter().filter(|r| r.get("error").is_some()).count();
    rep.count("alone_runs", batch.len() as u64);
    rep.count("alone_error_responses", n_err as u64);
    rep.count("alone_success_responses", (alone.len() - n_err) as u64);
    if spec.energy.is_some() {
        rep.count("energy_model_success_responses_(reference)", (alone.len() - n_err) as u64);
    }
    // ---- batch runs under different settings and schedules ----
    let runs = if tier.thorough { 6 } else { 4 };
    let mut orders: BTreeSet<u64> = BTreeSet::new();
    let mut assignments: BTreeSet<u64> = BTreeSet::new();
    for run_no in 0..runs {
        rep.eval();
        let par_override = if rng.chance(0.6) { Some(*rng.pick(&[1usize, 2, 3, 4, 5, 7, 8, 15, 16, 17, 32])) } else { None };
        let mut perm: Vec<usize> = (0..queries.len()).collect();
        if run_no > 0 {
            rng.shuffle(&mut perm);
        }
        let batch_q: Vec<Value> = perm.iter().map(|i| queries[*i].clone()).collect();
        let delay = run_no % 2 == 1 || rng.chance(0.5);
        let rec = Arc::new(Recorder::new(rng.next_u64(), delay));
        let rc = rec.clone();
        set_app_sink(Some(Arc::new(move |ev| rc.on_event(ev))));
        let mut cfg = par_override.map(|p| json!({"parallelism": p}));
        // a quarter of the runs use the other persistence policy: responses that went through the sink are dropped from
        // memory, so the run gets a newline-delimited JSON file sink and the responses are the file's records plus
        // whatever is handed back (queries that fail in the input plugins never reach the sink)
        let discard = run_no > 0 && rng.chance(0.33);
        let sink_file = built.dir.join(format!("c06-run{run_no}.ndjson"));
        if discard {
            let mut c = cfg.take().unwrap_or_else(|| json!({}));
            c["response_persistence_policy"] = json!("discard_response_from_memory");
            c["response_output_policy"] = json!({"type": "file", "filename": sink_file.to_string_lossy(), "format": {"type": "json", "newline_delimited": true}});
            cfg = Some(c);
        }
        let out = catch(|| built.app.run(batch_q.clone(), cfg.as_ref()));
        set_app_sink(None);
        let trace = rec.summarise();
        let eff_par = par_override.unwrap_or(spec.parallelism);
        let replay = || {
            let mut r = base_replay.clone();
            r["batch"] = json!(batch_q);
            r["run_config"] = json!(cfg);
            r
        };
        let setting = format!("parallelism={}", if eff_par == 1 { "1" } else { ">1" });
        let responses = match out {
            Err(pm) => {
                rep.violate(&format!("C06|batch|{}", panic_sig(&pm)), format!("run() panicked on a batch whose queries all run alone: {pm}"), replay);
                continue;
            }
            Ok(Err(e)) => {
                rep.violate("C06|batch|run-returns-err", format!("B4 run() returned Err for a batch whose queries all run alone: {e}"), replay);
                continue;
            }
            Ok(Ok(v)) => v,
        };
        let responses = if discard {
            let mut all = responses;
            let text = std::fs::read_to_string(&sink_file).unwrap_or_default();
            let _ = std::fs::remove_file(&sink_file);
            let mut bad_line = false;
            for line in text.lines().filter(|l| !l.trim().is_empty()) {
                match serde_json::from_str::<Value>(line) {
                    Ok(v) => all.push(v),
                    Err(_) => bad_line = true,
                }
            }
            if bad_line {
                rep.count("sink_lines_that_do_not_parse_(C19)", 1);
            }
            rep.count("batch_runs_with_discard_policy_and_file_sink", 1);
            all
        } else {
            responses
        };
        let setting = if discard { format!("{setting}|discard-policy") } else { setting };
        // B1
        if responses.len() != expected_total {
            rep.violate(&format!("C06|batch|response-count|{setting}"), format!("B1 {} responses for {} expanded queries (batch of {}, parallelism {eff_par}, configured {})", responses.len(), expected_total, queries.len(), spec.parallelism), replay);
            continue;
        }
        // B2 + B3
        let got = multiset(&responses);
        if got != reference {
            let d = first_difference(&reference, &got);
            rep.violate(&format!("C06|batch|differs-from-alone|{setting}{}", if cached { "|shared-prediction-cache" } else { "" }), format!("B3 the batch's responses differ from the queries run alone{}: {d}", if cached { " on the same application without the prediction cache" } else { "" }), replay);
            continue;
        }
        // B5 through the LoadBalanced event
        if let Ok(b) = rec.batches.lock() {
            let processed: usize = b.iter().map(|x| x[0]).sum();
            let n_input_errors = responses.len() - processed.min(responses.len());
            let _ = n_input_errors;
            if !b.is_empty() && b.len() != eff_par {
                rep.violate("C06|load-balancing|bin-count", format!("B5 {} parallel batches for parallelism {eff_par}", b.len()), replay);
                continue;
            }
        }
        orders.insert(hash_str(&trace.completion.join(",")));
        assignments.insert(hash_str(&format!("{:?}", trace.assignment)));
        rep.count("batch_runs", 1);
        rep.count("hook_events_observed", trace.n_events as u64);
        rep.max("max_in_flight_queries", trace.max_inflight as u64);
        rep.max("max_worker_threads_seen", trace.n_threads as u64);
        rep.seen("parallelism_values", eff_par.to_string());
        rep.seen("completion_orders", format!("{:016x}", hash_str(&trace.completion.join(","))));
        rep.seen("thread_assignments", format!("{:016x}", hash_str(&format!("{:?}", trace.assignment))));
        if run_no == 1 {
            rep.sample(|| json!({"plugins": plugins, "batch_size": queries.len(), "expanded": expected_total, "parallelism": eff_par, "configured_parallelism": spec.parallelism, "delays_injected": delay, "max_in_flight": trace.max_inflight, "worker_threads": trace.n_threads, "error_responses": n_err, "first_completions": trace.completion.iter().take(6).collect::<Vec<_>>()}));
        }
    }
    // ---- the bindings entry point (what the python package calls): a second application from the same TOML, queries
    // and run configuration marshalled as JSON text, responses parsed back ----
    if !cached && rng.chance(0.2) {
        use routee_compass::app::bindings::CompassAppBindings;
        rep.eval();
        match catch(|| crate::mon::c15::Bound::from_config_toml_string(built.toml.clone(), built.config_path.to_string_lossy().to_string())) {
            Ok(Ok(bound)) => {
                let par = *rng.pick(&[1usize, 2, 3, 8, 16]);
                let mut perm = queries.clone();
                rng.shuffle(&mut perm);
                let texts: Vec<String> = perm.iter().map(|q| q.to_string()).collect();
                let replay = || {
                    let mut r = base_replay.clone();
                    r["batch"] = json!(perm);
                    r["via"] = json!(format!("CompassAppBindings::run_queries, parallelism {par}"));
                    r
                };
                set_app_sink(None);
                match catch(|| bound.run_queries(texts.clone(), Some(json!({"parallelism": par}).to_string()))) {
                    Err(pm) => rep.violate(&format!("C06|bindings|{}", panic_sig(&pm)), format!("run_queries panicked on a batch whose queries all run alone: {pm}"), replay),
                    Ok(Err(e)) => rep.violate("C06|bindings|run-returns-err", format!("B4 run_queries returned Err for a batch whose queries all run alone: {e}"), replay),
                    Ok(Ok(out)) => {
                        let parsed: Vec<Value> = out.iter().filter_map(|t| serde_json::from_str(t).ok()).collect();
                        if parsed.len() != out.len() {
                            rep.violate("C06|bindings|response-text-does-not-parse", "a response string handed back by run_queries is not JSON".into(), replay);
                        } else if parsed.len() != expected_total {
                            rep.violate("C06|bindings|response-count", format!("B1 {} responses for {} expanded queries through run_queries", parsed.len(), expected_total), replay);
                        } else {
                            let got = multiset(&parsed);
                            if got != reference {
                                let d = first_difference(&reference, &got);
                                rep.violate("C06|bindings|differs-from-alone", format!("B3 the responses of run_queries differ from the queries run alone: {d}"), replay);
                            } else {
                                rep.count("bindings_runs_confirmed", 1);
                            }
                        }
                    }
                }
            }
            Ok(Err(e)) => rep.violate("C06|bindings|load-error", format!("from_config_toml_string refused a configuration that CompassApp::try_from accepts: {e}"), || base_replay.clone()),
            Err(pm) => rep.violate(&format!("C06|bindings|load|{}", panic_sig(&pm)), pm, || base_replay.clone()),
        }
    }
    for p in &plugins {
        rep.seen("plugins", p.clone());
    }
    for b in &batch {
        rep.seen("query_kinds", b.2.clone());
    }
    if queries.len() >= 6 && orders.len() >= 2 {
        rep.nontrivial(hash_str(&format!("{}|{:?}", built.toml.len(), queries.iter().take(4).collect::<Vec<_>>())));
    }
    // B5 direct calls
    {
        let nq = rng.urange(1, 60);
        let qs: Vec<Value> = (0..nq)
            .map(|i| {
                let mut q = json!({"i": i});
                match rng.below(5) {
                    0 => {}
                    1 => q["query_weight_estimate"] = json!(0.0),
                    2 => q["query_weight_estimate"] = json!(rng.frange(0.0, 10.0)),
                    3 => q["query_weight_estimate"] = json!(1e12),
                    _ => q["query_weight_estimate"] = json!(3.0),
                }
                q
            })
            .collect();
        let par = rng.urange(1, 33);
        rep.eval();
        match catch(|| apply_load_balancing_policy(&qs, par, 1.0).map(|b| b.iter().map(|x| x.iter().map(|q| q["i"].as_u64().unwrap_or(u64::MAX)).collect::<Vec<_>>()).collect::<Vec<_>>())) {
            Ok(Ok(bins)) => {
                let mut all: Vec<u64> = bins.iter().flatten().copied().collect();
                all.sort();
                if bins.len() != par || all != (0..nq as u64).collect::<Vec<_>>() {
                    rep.violate("C06|apply_load_balancing_policy|not-a-partition", format!("B5 {} bins for parallelism {par}; placed ids {:?} of {nq}", bins.len(), all.iter().take(20).collect::<Vec<_>>()), || json!({"queries": qs, "parallelism": par}));
                }
                rep.count("load_balancing_direct_calls", 1);
            }
            Ok(Err(e)) => rep.violate("C06|apply_load_balancing_policy|error", format!("B5 numeric estimates refused: {e}"), || json!({"queries": qs, "parallelism": par})),
            Err(pm) => rep.violate(&format!("C06|apply_load_balancing_policy|{}", panic_sig(&pm)), pm, || json!({"queries": qs, "parallelism": par})),
        }
    }
    let _ = has_plugin(&spec, |p| matches!(p, InputPlugin::GridSearch));
}

/// deterministic witness of the listed finding (grid expansion followed by a failing plugin)
fn directed(rep: &mut Report) {
    use crate::appgen::OutputPlugin;
    use crate::gen::net::{RefEdge, RefNet};
    use crate::world::{AccessCfg, CostCfg, FrontierCfg, StateCfg, TermCfg, TravCfg, World};
    use routee_compass_core::model::cost::cost_aggregation::CostAggregation;
    use routee_compass_core::model::cost::vehicle::vehicle_cost_rate::VehicleCostRate;
    use routee_compass_core::model::unit::{DistanceUnit, TimeUnit};
    let net = RefNet {
        coords: vec![(-105.0, 39.70), (-105.0, 39.71), (-105.0, 39.72)],
        edges: vec![RefEdge { src: 0, dst: 1, len_m: 1200.0 }, RefEdge { src: 1, dst: 2, len_m: 1200.0 }, RefEdge { src: 2, dst: 0, len_m: 2500.0 }],
        motifs: vec![],
        metric: true,
    };
    let world = World {
        net,
        trav: TravCfg::Distance { unit: DistanceUnit::Kilometers },
        state: StateCfg { dist_unit: DistanceUnit::Kilometers, dist_init: 0.0, time_unit: TimeUnit::Seconds, time_init: 0.0 },
        access: AccessCfg::None,
        access_wrap: 0,
        cost: CostCfg { weights: vec![("distance".into(), 1.0)], vehicle_rates: vec![("distance".into(), VehicleCostRate::Raw)], edge_surcharge: vec![], turn_surcharge: vec![], agg: CostAggregation::Sum },
        frontier: FrontierCfg::None,
        term: TermCfg::None,
    };
    let mut spec = AppSpec::basic(world, crate::run::Alg::Dijkstra);
    spec.input_plugins = vec![InputPlugin::GridSearch, InputPlugin::LoadBalancerCategorical { column: "size".into(), mapping: vec![("small".into(), 1.0)], default: None }];
    spec.output_plugins = vec![OutputPlugin::Traversal { route: Some("edge_id".into()), tree: None }];
    let built = match catch(|| build_app(&spec, "c06d")) {
        Ok(Ok(b)) => b,
        _ => {
            rep.inconclusive("the directed application could not be built".into());
            return;
        }
    };
    let q = json!({"qid": "directed", "origin_vertex": 0, "destination_vertex": 2, "size": "unheard_of", "grid_search": {"variant": ["a", "b", "c"]}});
    rep.eval();
    match catch(|| built.app.run(vec![q.clone()], None)) {
        Ok(Ok(v)) => {
            if v.len() != 3 {
                rep.violate(
                    "C06|input-plugins|grid-expansion-collapses-to-one-error-when-a-later-plugin-fails",
                    format!("B1 {} responses for a query that expands to 3 (plugins grid_search, load_balancer): {}", v.len(), v.iter().map(|x| x.to_string().chars().take(200).collect::<String>()).collect::<Vec<_>>().join(" | ")),
                    || json!({"toml": built.toml, "query": q}),
                );
            }
            rep.count("directed_cases", 1);
        }
        other => rep.inconclusive(format!("directed case did not run: {:?}", other.map(|r| r.map(|v| v.len()).map_err(|e| e.to_string())))),
    }
}

pub fn run(tier: Tier, seed: u64) -> MonOut {
    let saved = silence_stderr();
    let n = tier.n(150, 3_000);
    let base = Rng::new(seed);
    let mut rep = Report::new();
    directed(&mut rep);
    // the event sink is process wide, so batch cases run one after another; the application itself
    // uses the 16 rayon workers
    for i in 0..n {
        let mut rng = base.fork(i as u64 + 1);
        case(tier, i, &mut rng, &mut rep);
    }
    crate::appgen::restore_stderr(saved);
    let orders = rep.sets.get("completion_orders").map(|s| s.len()).unwrap_or(0);
    if orders < 3 {
        rep.inconclusive(format!("only {orders} distinct completion orders were observed"));
    }
    MonOut {
        report: rep,
        rule: "applications built from generated TOML (distance / speed traversal, turn delays, road classes or vehicle restrictions, small iteration limits that terminate long searches, plugins inject / grid_search / vertex_rtree / load_balancer haversine|numeric|categorical in that order, parallelism 1..32) x batches of 1..120 (thorough 300) queries tagged with unique qids: valid, unreachable, terminated, grid-search (1..9 expansions), and 15 % malformed of 16 classes; reference = every query run alone with parallelism 1; then 4 (thorough 6) batch runs per application with random parallelism override (1,2,3,4,5,7,8,15,16,17,32 or none), random permutation, and seeded yield/sleep injection at QueryStart / QueryEnd / BeforeWrite hook events; one run in five goes through a second application and CompassAppBindings::run_queries (queries, run configuration and responses as JSON text); responses compared as a multiset of (qid+expansion, error text, route path, route cost, final state at 9 digits). non-trivial = batch of >= 6 queries for which >= 2 distinct completion orders were observed; distinct by application and batch".into(),
        assumptions: vec![
            "the reference for a query is the same application answering it alone (parallelism 1)".into(),
            "iteration limits (deterministic messages) are used for terminated queries; runtime limits are not, their outcome is time dependent by design".into(),
            "schedule reach = native stress with injected delays between critical sections; the evidence lists the distinct completion orders and thread assignments actually observed".into(),
        ],
        floor: 8,
        exhaustive: false,
        explanation: "sampled applications, batches, settings and schedules".into(),
    }
}

//! C02 — the returned route has least total cost under the query's own objective (core level).
use super::{MonOut, Tier};
use crate::hooks::{Caught, Ev};
use crate::oracle::graph::{dijkstra, has_costlier_alternative};
use crate::oracle::route::{route_ids, travel_order, Od};
use crate::oracle::units::rel_close;
use crate::par::par_cases;
use crate::report::Report;
use crate::rng::{hash_str, Rng};
use crate::run::{err_class, run_search, step_budget, Alg};
use crate::searchcase::{gen_edge_od, gen_vertex_od, independent_edge_costs, route_cost};
use crate::world::{gen_world, WorldParams};
use crate::appgen::{build_app, AppSpec, OutputPlugin};
use crate::hooks::catch;
use routee_compass_core::model::cost::cost_aggregation::CostAggregation;
use routee_compass_core::model::cost::vehicle::vehicle_cost_rate::VehicleCostRate;
use serde_json::{json, Value};

fn case(tier: Tier, rng: &mut Rng, rep: &mut Report) {
    let mut p = WorldParams::default();
    p.net.max_v = if tier.thorough { 60 } else { 24 };
    if tier.thorough && rng.chance(0.03) {
        p.net.min_v = 150;
        p.net.max_v = 400;
    }
    p.net.metric = rng.chance(0.75);
    p.net.colocated = !p.net.metric && rng.chance(0.2);
    p.allow_turn_delay = false; // precondition: no access model
    p.surcharges = true;
    p.rich_cost = true;
    let world = gen_world(rng, &p);
    let net = world.net.clone();
    let query = json!({});
    let via_files = rng.chance(0.2);
    let graph = match crate::gen::net::graph_for(&net, via_files) {
        Ok(g) => g,
        Err(e) => {
            rep.violate("graph-load|error", format!("the network files written by the generator were refused: {e}"), || net.to_json());
            return;
        }
    };
    rep.count(if via_files { "graphs_loaded_from_files" } else { "graphs_built_in_memory" }, 1);
    let si = match world.si(graph, &query) {
        Ok(s) => s,
        Err(e) => {
            rep.inconclusive(format!("could not build a search instance: {e}"));
            return;
        }
    };
    let cost = match independent_edge_costs(&world, &si) {
        Ok(Some(c)) => c,
        Ok(None) => {
            rep.count("worlds_skipped_state_dependent_costs", 1);
            return;
        }
        Err(e) => {
            rep.inconclusive(format!("could not measure per-edge state changes: {e}"));
            return;
        }
    };
    let allowed = vec![true; net.ne()];
    let unit_cfg = match &world.trav {
        crate::world::TravCfg::Distance { unit } => format!("distance[{unit}]"),
        crate::world::TravCfg::Speed { speed_unit, dist_unit, time_unit, .. } => format!("speed[{speed_unit},{dist_unit},{time_unit}]"),
    };
    rep.seen("unit_configurations", unit_cfg.clone());
    for _ in 0..8 {
        let edge_oriented = rng.chance(0.3);
        let od = if edge_oriented { gen_edge_od(rng, &net, true) } else { gen_vertex_od(rng, &net, true) };
        let reverse = !edge_oriented && rng.chance(0.45);
        // travel origin / destination vertices of the part that is optimised
        let (o, d, adjacent) = match od {
            Od::Vertex(s, Some(t)) => {
                if reverse { (t, s, false) } else { (s, t, false) }
            }
            Od::Edge(oe, Some(de)) => (net.edges[oe].dst, net.edges[de].src, net.edges[oe].dst == net.edges[de].src),
            _ => continue,
        };
        let same = match od {
            Od::Vertex(s, Some(t)) => s == t,
            Od::Edge(a, Some(b)) => a == b,
            _ => true,
        };
        if same {
            continue;
        }
        let ref_min = dijkstra(&net, &cost, &allowed, o, true)[d];
        // O4 the estimate that orders A* is a lower bound: in these worlds every edge is longer than the great circle
        // between its ends (by >= 0.1 % + 5 m, far above f32 noise), speeds never exceed the table's maximum and all rates
        // are non-negative and monotone, so the least cost from any vertex to the destination cannot be below the
        // estimate for that pair
        if net.metric && !edge_oriented && !reverse {
            let to_d = dijkstra(&net, &cost, &allowed, d, false);
            if let Ok(init) = si.state_model.initial_state() {
                for _ in 0..3 {
                    let u = rng.below(net.nv());
                    if u == d || !to_d[u].is_finite() {
                        continue;
                    }
                    rep.eval();
                    use routee_compass_core::model::network::VertexId;
                    use routee_compass_core::model::unit::as_f64::AsF64;
                    if let Ok(Ok(est)) = crate::hooks::catch(|| si.estimate_traversal_cost(VertexId(u), VertexId(d), &init)) {
                        let est = est.as_f64();
                        if est > to_d[u] * (1.0 + 1e-9) + 1e-9 {
                            rep.violate("C02|estimate-exceeds-least-cost", format!("O4 the cost estimate from vertex {u} to {d} is {est}, the least cost of a route between them is {} ({}x): A* ordered by it can return a costlier route", to_d[u], est / to_d[u]), || json!({"world": world.to_json(), "from": u, "to": d, "independent_edge_costs": cost}));
                            break;
                        }
                        rep.count("estimates_confirmed_as_lower_bounds", 1);
                    }
                }
            }
        }
        let mut algs = vec![Alg::Dijkstra];
        if net.metric {
            algs.push(Alg::AStar(*rng.pick(&[None, Some(1.0), Some(0.5), Some(0.0), Some(0.9)])));
        } else {
            algs.push(Alg::AStar(Some(0.0)));
        }
        let mut costs_seen: Vec<(String, f64)> = vec![];
        for alg in &algs {
            rep.eval();
            let is_dijkstra = matches!(alg, Alg::Dijkstra | Alg::AStar(Some(0.0)));
            let (out, ctx) = run_search(alg, &si, od, reverse, &query, step_budget(net.nv(), net.ne(), 1), is_dijkstra);
            let orient = if edge_oriented { "edge" } else { "vertex" };
            let dirn = if reverse { "reverse" } else { "forward" };
            let replay = || json!({"world": world.to_json(), "algorithm": alg.to_json(), "od": format!("{:?}", od), "direction": dirn, "independent_edge_costs": cost, "reference_min": ref_min});
            let res = match out {
                Err(Caught::Budget(b)) => {
                    rep.violate(&format!("C02|{}|step-budget-exceeded", alg.family()), format!("plain search exceeded the logical step budget: {:?}", b), replay);
                    continue;
                }
                Err(Caught::Panic(m)) => {
                    rep.violate(&format!("C02|{}|{}", alg.family(), crate::hooks::panic_sig(&m)), format!("search panicked: {m}"), replay);
                    continue;
                }
                Ok(Err(e)) => {
                    if ref_min.is_finite() && !adjacent {
                        rep.violate(&format!("C02|{}|{orient}|{dirn}|error-on-reachable|{}", alg.family(), err_class(&e)), format!("a path of cost {ref_min} exists but the search failed: {e}"), replay);
                    } else {
                        rep.count("unreachable_pairs", 1);
                    }
                    continue;
                }
                Ok(Ok(r)) => r,
            };
            let route = match res.routes.first() {
                Some(r) => r,
                None => continue,
            };
            let ids = travel_order(&route_ids(route), reverse);
            // the part between origin and destination edges for edge-oriented queries
            let (mid, reported): (Vec<usize>, f64) = match od {
                Od::Edge(oe, Some(de)) if !adjacent => {
                    if ids.len() < 2 || ids[0] != oe || *ids.last().unwrap() != de {
                        // structure is C01's business
                        rep.count("edge_oriented_route_without_both_edges_(C01)", 1);
                        continue;
                    }
                    (ids[1..ids.len() - 1].to_vec(), route[1..route.len() - 1].iter().map(|e| routee_compass_core::model::unit::as_f64::AsF64::as_f64(&e.total_cost())).sum())
                }
                _ => (ids.clone(), route_cost(route)),
            };
            let indep: f64 = mid.iter().map(|e| cost[*e]).sum();
            let sig_base = format!("C02|{}|{orient}|{dirn}", alg.family());
            // O2 the reported cost is the independent cost of the returned edges (no under/over-reporting)
            if !rel_close(reported, indep, 1e-9, 1e-12) {
                rep.violate(&format!("{sig_base}|reported-cost-differs-from-edge-costs"), format!("O2 route {ids:?}: reported {reported}, independent cost of its edges {indep}"), replay);
                continue;
            }
            if adjacent {
                rep.count("adjacent_edge_queries", 1);
                continue;
            }
            if !ref_min.is_finite() {
                rep.violate(&format!("{sig_base}|route-for-unreachable"), format!("reference finds no path but route {ids:?} was returned"), replay);
                continue;
            }
            // O1 optimal
            if reported > ref_min * (1.0 + 1e-9) + 1e-12 {
                rep.violate(&format!("{sig_base}|suboptimal"), format!("O1 route {ids:?} costs {reported}, minimum is {ref_min} ({}x)", reported / ref_min), replay);
                continue;
            }
            if reported < ref_min * (1.0 - 1e-9) - 1e-12 {
                rep.violate(&format!("{sig_base}|cheaper-than-minimum"), format!("O2 route {ids:?} costs {reported}, below the reference minimum {ref_min}"), replay);
                continue;
            }
            costs_seen.push((alg.name(), reported));
            // hook invariant: Dijkstra pops in non-decreasing cost order
            if is_dijkstra {
                let mut last = f64::NEG_INFINITY;
                let mut npop = 0;
                for ev in &ctx.events {
                    if let Ev::Pop { g, vertex } = ev {
                        npop += 1;
                        if *g < last * (1.0 - 1e-12) - 1e-15 {
                            rep.violate(&format!("C02|{}|pop-order-not-monotone", alg.family()), format!("vertex {vertex} popped with cost {g} after a pop with cost {last}"), replay);
                            break;
                        }
                        last = *g;
                    }
                }
                rep.count("pops_observed", npop);
            }
            rep.count("relaxations_observed", ctx.n_relax);
            let nontrivial = has_costlier_alternative(&net, &cost, &allowed, o, d);
            if nontrivial {
                rep.nontrivial(hash_str(&format!("{}|{}|{:?}|{reverse}|{:?}|{}", net.ne(), alg.family(), od, mid, unit_cfg)));
                rep.sample(|| json!({"algorithm": alg.name(), "orientation": orient, "direction": dirn, "od": format!("{:?}", od), "units": unit_cfg, "weights": world.cost.weights, "route": ids, "cost": reported, "reference_min": ref_min, "vertices": net.nv(), "edges": net.ne()}));
            }
            rep.seen("configurations", format!("{}|{orient}|{dirn}", alg.family()));
            rep.count("optimal_routes_confirmed", 1);
        }
        // O3 both algorithms report the same cost
        if costs_seen.len() == 2 && !rel_close(costs_seen[0].1, costs_seen[1].1, 1e-9, 1e-12) {
            rep.violate("C02|dijkstra-vs-a*|cost-differs", format!("O3 {} -> {} but {} -> {}", costs_seen[0].0, costs_seen[0].1, costs_seen[1].0, costs_seen[1].1), || json!({"world": world.to_json(), "od": format!("{:?}", od)}));
        }
    }
}


/// application-level slice: the same optimality oracle through CompassApp::run, with the objective given in the
/// configuration only, in the query only (the configuration holds a decoy), or split between the two
fn app_case(case_no: usize, rng: &mut Rng, rep: &mut Report) {
    let mut p = WorldParams::default();
    p.net.min_v = 5;
    p.net.max_v = 24;
    p.net.metric = true;
    p.allow_turn_delay = false;
    p.surcharges = false;
    p.rich_cost = true;
    let mut world = gen_world(rng, &p);
    for (_, r) in world.cost.vehicle_rates.iter_mut() {
        if let VehicleCostRate::Combined(_) = r {
            *r = VehicleCostRate::Factor { factor: 2.5 };
        }
    }
    let real = world.cost.clone();
    let net = world.net.clone();
    // reference costs under the objective the query asks for
    let graph = std::sync::Arc::new(net.to_graph());
    let si = match world.si(graph, &json!({})) {
        Ok(s) => s,
        Err(e) => {
            rep.inconclusive(format!("could not build a search instance: {e}"));
            return;
        }
    };
    let cost = match independent_edge_costs(&world, &si) {
        Ok(Some(c)) => c,
        _ => {
            rep.count("worlds_skipped_state_dependent_costs", 1);
            return;
        }
    };
    // what the configuration file says
    let mode = rng.below(5);
    let mode_name = ["config-only", "query-overrides-all", "query-overrides-weights", "query-overrides-rates", "query-overrides-aggregation"][mode];
    let features: Vec<String> = real.weights.iter().map(|w| w.0.clone()).collect();
    let decoy_weights = |rng: &mut Rng| -> Vec<(String, f64)> {
        let mut w: Vec<(String, f64)> = features.iter().map(|f| (f.clone(), if rng.chance(0.3) { 0.0 } else { rng.frange(0.05, 4.0) })).collect();
        if w.iter().all(|x| x.1 == 0.0) {
            w[0].1 = 1.0;
        }
        w
    };
    let decoy_rates = |rng: &mut Rng| -> Vec<(String, VehicleCostRate)> {
        let mut r: Vec<(String, VehicleCostRate)> = features.iter().map(|f| (f.clone(), match rng.below(3) { 0 => VehicleCostRate::Raw, 1 => VehicleCostRate::Factor { factor: rng.frange(0.0, 30.0) }, _ => VehicleCostRate::Offset { offset: rng.frange(0.0, 50.0) } })).collect();
        // the configuration may leave features without a rate (the query supplies them); one entry always stays
        if rng.chance(0.5) && r.len() > 1 {
            let keep = rng.below(r.len());
            let mut i = 0;
            r.retain(|_| {
                let k = i == keep || rng.chance(0.5);
                i += 1;
                k
            });
        }
        r
    };
    let mut cfg_cost = real.clone();
    let mut over = serde_json::Map::new();
    let weights_json = |w: &Vec<(String, f64)>| Value::Object(w.iter().map(|(k, v)| (k.clone(), json!(v))).collect());
    let rates_json = |r: &Vec<(String, VehicleCostRate)>| Value::Object(r.iter().map(|(k, v)| (k.clone(), serde_json::to_value(v).unwrap_or(Value::Null))).collect());
    match mode {
        0 => {}
        1 => {
            cfg_cost.weights = decoy_weights(rng);
            cfg_cost.vehicle_rates = decoy_rates(rng);
            cfg_cost.agg = if rng.chance(0.5) { CostAggregation::Mul } else { CostAggregation::Sum };
            over.insert("weights".into(), weights_json(&real.weights));
            over.insert("vehicle_rates".into(), rates_json(&real.vehicle_rates));
            over.insert("cost_aggregation".into(), json!("sum"));
        }
        2 => {
            cfg_cost.weights = decoy_weights(rng);
            over.insert("weights".into(), weights_json(&real.weights));
        }
        3 => {
            cfg_cost.vehicle_rates = decoy_rates(rng);
            over.insert("vehicle_rates".into(), rates_json(&real.vehicle_rates));
        }
        _ => {
            cfg_cost.agg = CostAggregation::Mul;
            over.insert("cost_aggregation".into(), json!("sum"));
        }
    }
    // the algorithm: optionally an inadmissible configured weight factor that the query corrects
    let wf_override = rng.chance(0.3);
    let alg = if wf_override { Alg::AStar(Some(*rng.pick(&[3.0, 5.0, 25.0]))) } else { rng.pick(&[Alg::Dijkstra, Alg::AStar(None), Alg::AStar(Some(1.0)), Alg::AStar(Some(0.5)), Alg::AStar(Some(0.0))]).clone() };
    if wf_override {
        over.insert("weight_factor".into(), json!(*rng.pick(&[0.0, 0.5, 1.0])));
    }
    world.cost = cfg_cost;
    let mut spec = AppSpec::basic(world.clone(), alg.clone());
    spec.parallelism = rng.urange(1, 4);
    // the json route format carries the per-edge access and traversal cost the search charged
    spec.output_plugins = vec![OutputPlugin::Summary, OutputPlugin::Traversal { route: Some("json".into()), tree: None }];
    let built = match catch(|| build_app(&spec, "c02")) {
        Ok(Ok(b)) => b,
        Ok(Err(e)) => {
            rep.violate("C02|app|CompassApp::try_from|load-error", format!("well-formed configuration refused: {}", e.lines().next().unwrap_or("")), || json!({"toml": e}));
            return;
        }
        Err(pm) => {
            rep.violate(&format!("C02|app|CompassApp::try_from|{}", crate::hooks::panic_sig(&pm)), pm, || json!({}));
            return;
        }
    };
    let allowed = vec![true; net.ne()];
    let mut queries = vec![];
    let mut ods = vec![];
    for i in 0..6 {
        if let Od::Vertex(o, Some(d)) = gen_vertex_od(rng, &net, true) {
            if o == d {
                continue;
            }
            let mut q = serde_json::Map::new();
            q.insert("qid".into(), json!(format!("a{case_no}q{i}")));
            q.insert("origin_vertex".into(), json!(o));
            q.insert("destination_vertex".into(), json!(d));
            for (k, v) in &over {
                q.insert(k.clone(), v.clone());
            }
            queries.push(Value::Object(q));
            ods.push((o, d));
        }
    }
    if queries.is_empty() {
        return;
    }
    let out = catch(|| built.app.run(queries.clone(), None));
    let responses = match out {
        Ok(Ok(v)) => v,
        Ok(Err(e)) => {
            rep.violate("C02|app|run-returns-err", format!("run() failed: {e}"), || json!({"toml": built.toml, "batch": queries}));
            return;
        }
        Err(pm) => {
            rep.violate(&format!("C02|app|{}", crate::hooks::panic_sig(&pm)), pm, || json!({"toml": built.toml, "batch": queries}));
            return;
        }
    };
    // the same pairs without the overrides: shows how often the decoy objective would have chosen another route
    let plain: Vec<Value> = queries
        .iter()
        .map(|q| {
            let mut q = q.clone();
            if let Some(o) = q.as_object_mut() {
                for k in over.keys() {
                    o.remove(k);
                }
            }
            q
        })
        .collect();
    let plain_paths: std::collections::HashMap<String, String> = match catch(|| built.app.run(plain, None)) {
        Ok(Ok(v)) => v.iter().map(|r| (r["request"]["qid"].as_str().unwrap_or("").to_string(), format!("{:?}", r["route"]["path"].as_array().map(|a| a.iter().filter_map(|x| x["edge_id"].as_u64()).collect::<Vec<_>>()).unwrap_or_default()))).collect(),
        _ => Default::default(),
    };
    for (q, (o, d)) in queries.iter().zip(&ods) {
        rep.eval();
        let qid = q["qid"].as_str().unwrap_or("");
        let replay = || json!({"toml": built.toml, "query": q, "mode": mode_name, "world": world.to_json(), "objective_asked_for": {"weights": real.weights, "vehicle_rates": rates_json(&real.vehicle_rates), "aggregation": "sum"}, "independent_edge_costs": cost, "response": responses.iter().find(|r| r["request"]["qid"].as_str() == Some(qid))});
        let r = match responses.iter().find(|r| r["request"]["qid"].as_str() == Some(qid)) {
            Some(r) => r,
            None => {
                rep.violate("C02|app|query-not-answered", format!("no response for {qid}"), replay);
                continue;
            }
        };
        let ref_min = dijkstra(&net, &cost, &allowed, *o, true)[*d];
        let sig_base = format!("C02|app|{}|{mode_name}", alg.family());
        if let Some(e) = r.get("error") {
            if ref_min.is_finite() {
                rep.violate(&format!("{sig_base}|error-on-reachable"), format!("a path of cost {ref_min} exists but the query failed: {}", e.to_string().chars().take(300).collect::<String>()), replay);
            } else {
                rep.count("unreachable_pairs", 1);
            }
            continue;
        }
        let path: Vec<usize> = r["route"]["path"].as_array().map(|a| a.iter().filter_map(|x| x["edge_id"].as_u64().map(|v| v as usize)).collect()).unwrap_or_default();
        if path.is_empty() || path.iter().any(|e| *e >= net.ne()) || net.edges[path[0]].src != *o || net.edges[*path.last().unwrap()].dst != *d {
            rep.count("app_routes_with_unexpected_shape_(C01)", 1);
            continue;
        }
        let indep: f64 = path.iter().map(|e| cost[*e]).sum();
        // (route.cost.total_cost of the summary is the un-weighted cost in vehicle-rate units, a different quantity)
        let reported: f64 = r["route"]["path"].as_array().map(|a| a.iter().map(|x| x["access_cost"].as_f64().unwrap_or(f64::NAN) + x["traversal_cost"].as_f64().unwrap_or(f64::NAN)).sum()).unwrap_or(f64::NAN);
        if !rel_close(reported, indep, 1e-9, 1e-12) {
            rep.violate(&format!("{sig_base}|reported-cost-differs-from-edge-costs"), format!("O2 route {path:?}: the response's per-edge access + traversal costs sum to {reported}, its edges cost {indep} under the objective the query asks for"), replay);
            continue;
        }
        if !ref_min.is_finite() {
            rep.violate(&format!("{sig_base}|route-for-unreachable"), format!("reference finds no path but route {path:?} was returned"), replay);
            continue;
        }
        if indep > ref_min * (1.0 + 1e-9) + 1e-12 {
            rep.violate(&format!("{sig_base}|suboptimal"), format!("O1 route {path:?} costs {indep} under the objective the query asks for, the minimum is {ref_min} ({}x)", indep / ref_min), replay);
            continue;
        }
        rep.count("app_optimal_routes_confirmed", 1);
        rep.seen("app_objective_modes", format!("{mode_name}{}", if wf_override { "+weight_factor" } else { "" }));
        let changed = plain_paths.get(qid).map(|p| *p != format!("{:?}", path.iter().map(|e| *e as u64).collect::<Vec<_>>())).unwrap_or(false);
        if changed {
            rep.count("app_routes_that_differ_from_the_configured_(decoy)_objective", 1);
        }
        if has_costlier_alternative(&net, &cost, &allowed, *o, *d) {
            rep.nontrivial(hash_str(&format!("app|{}|{}|{o}|{d}|{path:?}|{mode_name}", net.ne(), alg.family())));
            if changed {
                rep.sample(|| json!({"level": "application", "mode": mode_name, "algorithm": alg.name(), "query": q, "route": path, "cost": indep, "reference_min": ref_min, "route_under_configured_objective": plain_paths.get(qid)}));
            }
        }
    }
}

pub fn run(tier: Tier, seed: u64) -> MonOut {
    let n = tier.n(40_000, 1_500_000);
    // one case in 80 goes through the application (TOML configuration + query overrides)
    let rep = par_cases(seed, n, |i, rng, rep| if i % 80 == 79 { app_case(i, rng, rep) } else { case(tier, rng, rep) });
    MonOut {
        report: rep,
        rule: "generated networks (metric 75 %: length = repo haversine x (1+m) + 5..25 m; otherwise arbitrary positive lengths, sometimes co-located vertices) with distance or speed-table traversal in every distance x time x speed unit combination, random non-negative weights (positive sum, zeros included), vehicle rates raw / factor>=0 / offset>=0 / nested combined, per-edge surcharge tables, no access model; 8 origin/destination pairs per network (vertex or edge oriented, forward or reverse) each searched by Dijkstra and by A* (weight factor none/1/0.9/0.5/0 on metric networks, 0 otherwise). the route cost is compared with a reference Dijkstra over independently computed per-edge costs. application-level slice (1 case in 80): the same oracle through CompassApp::run with the objective in the TOML only, or a decoy objective in the TOML and the real one in the query (all of weights / vehicle_rates / cost_aggregation, or one of them), and an inadmissible configured weight_factor corrected by the query. non-trivial = an alternative o-d path with a different cost exists; distinct by (network, algorithm, od, direction, route, units)".into(),
        assumptions: vec![
            "per-edge state change taken from one real traverse_edge; weights, rates and surcharges are the generator's own values, so a search that ignores them disagrees with the oracle".into(),
            "worlds whose per-edge state change depends on the start state are outside the property's precondition and are skipped (counted)".into(),
            "tolerance 1e-9 relative: both sides come from the same per-edge arithmetic".into(),
            "the +5 m slack in metric lengths absorbs the f32 rounding of the repo's haversine so that admissibility is a fact".into(),
        ],
        floor: 300,
        exhaustive: false,
        explanation: "sampled networks/objectives; optimality decided against a reference shortest-path computation".into(),
    }
}

//! C14 — interpolated powertrain predictions stay faithful to the underlying model.
use super::{MonOut, Tier};
use crate::hooks::{catch, panic_sig};
use crate::oracle::units as U;
use crate::oracle::units::rel_close;
use crate::par::par_cases;
use crate::report::Report;
use crate::rng::{hash_str, Rng};
use ndarray::{ArrayD, IxDyn};
use routee_compass_core::model::unit::as_f64::AsF64;
use routee_compass_core::model::unit::{EnergyRateUnit, Grade, GradeUnit, Speed, SpeedUnit};
use routee_compass_powertrain::routee::prediction::interpolation::interp::{Interp1D, Interp2D, Interp3D, InterpND, Interpolator, Strategy};
use routee_compass_powertrain::routee::prediction::model_type::ModelType;
use routee_compass_powertrain::routee::prediction::{load_prediction_model, PredictionModelRecord};
use serde_json::json;
use std::path::PathBuf;

pub const MODELS: [(&str, EnergyRateUnit); 4] = [
    ("Toyota_Camry.bin", EnergyRateUnit::GallonsGasolinePerMile),
    ("2017_CHEVROLET_Bolt.bin", EnergyRateUnit::KilowattHoursPerMile),
    ("2016_CHEVROLET_Volt_Charge_Depleting.bin", EnergyRateUnit::KilowattHoursPerMile),
    ("2016_CHEVROLET_Volt_Charge_Sustaining.bin", EnergyRateUnit::GallonsGasolinePerMile),
];

pub fn model_path(name: &str) -> PathBuf {
    PathBuf::from("/repo/rust/routee-compass-powertrain/src/routee/test").join(name)
}

/// the configured grid: `n` equally spaced points from `lo` to `hi`, the step accumulated point by point. computed here,
/// not by the code under test: the grid the model tabulates must be the one that was configured
fn own_linspace(lo: f64, hi: f64, n: usize) -> Vec<f64> {
    let dx = (hi - lo) / ((n - 1) as f64);
    let mut x = vec![lo; n];
    for i in 1..n {
        x[i] = x[i - 1] + dx;
    }
    x
}

fn underlying(name: &str, eru: EnergyRateUnit, msu: SpeedUnit, mgu: GradeUnit) -> Result<PredictionModelRecord, String> {
    load_prediction_model(name.to_string(), &model_path(name), ModelType::Smartcore, msu, mgu, eru, Some(routee_compass_core::model::unit::EnergyRate::new(0.1)), None, None).map_err(|e| e.to_string())
}

fn grid_case(rng: &mut Rng, rep: &mut Report, npoints: usize) {
    let mi = rng.below(4);
    let (name, eru) = MODELS[mi];
    // how the model file is declared (the units its inputs and its rate are read in) is part of the configuration: the
    // interpolated model and the underlying model are declared alike and have to agree under every declaration
    let msu = *rng.pick(&U::SPEED_UNITS);
    let mgu = *rng.pick(&U::GRADE_UNITS);
    let eru = match eru {
        EnergyRateUnit::KilowattHoursPerMile => *rng.pick(&[EnergyRateUnit::KilowattHoursPerMile, EnergyRateUnit::KilowattHoursPerKilometer, EnergyRateUnit::KilowattHoursPerMeter]),
        _ => *rng.pick(&[EnergyRateUnit::GallonsGasolinePerMile, EnergyRateUnit::GallonsDieselPerMile]),
    };
    let s_lo = *rng.pick(&[0.0, 5.0, 10.0]);
    let s_hi = *rng.pick(&[60.0, 80.0, 100.0]);
    let g_lo = *rng.pick(&[-0.2, -0.1, -0.05]);
    let g_hi = *rng.pick(&[0.05, 0.1, 0.2]);
    let s_bins = *rng.pick(&[2usize, 3, 5, 11, 21, 41]);
    let g_bins = *rng.pick(&[2usize, 3, 5, 9, 21]);
    let settings = json!({"model": name, "declared_units": [msu.to_string(), mgu.to_string(), eru.to_string()], "speed_bounds": [s_lo, s_hi], "speed_bins": s_bins, "grade_bounds": [g_lo, g_hi], "grade_bins": g_bins});
    let under = match underlying(name, eru, msu, mgu) {
        Ok(u) => u,
        Err(e) => {
            rep.inconclusive(format!("cannot load bundled model {name}: {e}"));
            return;
        }
    };
    let mt = ModelType::Interpolate {
        underlying_model_type: Box::new(ModelType::Smartcore),
        speed_lower_bound: Speed::new(s_lo),
        speed_upper_bound: Speed::new(s_hi),
        speed_bins: s_bins,
        grade_lower_bound: Grade::new(g_lo),
        grade_upper_bound: Grade::new(g_hi),
        grade_bins: g_bins,
    };
    let interp = match catch(|| load_prediction_model(name.to_string(), &model_path(name), mt, msu, mgu, eru, Some(routee_compass_core::model::unit::EnergyRate::new(0.1)), None, None)) {
        Ok(Ok(m)) => m,
        Ok(Err(e)) => {
            rep.violate("C14|InterpolationSpeedGradeModel::new|error", format!("well-formed grid refused: {e}"), || settings.clone());
            return;
        }
        Err(pm) => {
            rep.violate(&format!("C14|InterpolationSpeedGradeModel::new|{}", panic_sig(&pm)), pm, || settings.clone());
            return;
        }
    };
    // the grid axes (definition of the grid) and the underlying values at the grid points
    let xs = own_linspace(s_lo, s_hi, s_bins);
    let ys = own_linspace(g_lo, g_hi, g_bins);
    let mut vals = vec![vec![0.0; g_bins]; s_bins];
    for (i, x) in xs.iter().enumerate() {
        for (j, y) in ys.iter().enumerate() {
            match under.prediction_model.predict((Speed::new(*x), msu), (Grade::new(*y), mgu)) {
                Ok((r, _)) => vals[i][j] = r.as_f64(),
                Err(e) => {
                    rep.inconclusive(format!("underlying model failed at a grid point: {e}"));
                    return;
                }
            }
        }
    }
    let cell = |axis: &[f64], v: f64| -> (usize, usize) {
        // candidate lower indices: the cell containing v, widened by one cell when v sits on a grid line
        let n = axis.len();
        let mut lo = 0;
        while lo + 2 < n && axis[lo + 1] < v {
            lo += 1;
        }
        let mut a = lo;
        let mut b = lo;
        let eps = 1e-9 * (axis[n - 1] - axis[0]).abs().max(1.0);
        if (v - axis[lo]).abs() <= eps && lo > 0 {
            a = lo - 1;
        }
        if (v - axis[lo + 1]).abs() <= eps && lo + 2 < n {
            b = lo + 1;
        }
        (a, b)
    };
    let predict = |s: f64, su: SpeedUnit, g: f64, gu: GradeUnit| interp.prediction_model.predict((Speed::new(s), su), (Grade::new(g), gu)).map(|(r, _)| r.as_f64());
    for pi in 0..npoints {
        rep.eval();
        let su = *rng.pick(&U::SPEED_UNITS);
        let gu = *rng.pick(&U::GRADE_UNITS);
        // point in model units first
        let kind = rng.below(8);
        let (mx, my, label) = match kind {
            0 | 1 => (rng.frange(s_lo, s_hi), rng.frange(g_lo, g_hi), "interior"),
            2 => (xs[rng.below(s_bins)], ys[rng.below(g_bins)], "grid-point"),
            3 => (xs[rng.below(s_bins)], rng.frange(g_lo, g_hi), "grid-line"),
            4 => (xs[s_bins - 1], ys[g_bins - 1], "upper-corner"),
            5 => {
                let x = xs[rng.below(s_bins)];
                (f64::from_bits((x.to_bits() as i64 + rng.range(-2, 2)) as u64), rng.frange(g_lo, g_hi), "ulp-around-line")
            }
            6 => (if rng.chance(0.5) { s_hi + rng.frange(0.1, 50.0) } else { s_lo - rng.frange(0.1, 20.0) }, rng.frange(g_lo, g_hi), "outside-speed"),
            _ => (rng.frange(s_lo - 5.0, s_hi + 30.0), if rng.chance(0.5) { g_hi + rng.frange(0.01, 0.5) } else { g_lo - rng.frange(0.01, 0.5) }, "outside-grade"),
        };
        // express in the query units; what the model will see is the repo's own conversion back
        let qs = msu.convert(&Speed::new(mx), &su).as_f64();
        let qg = mgu.convert(&Grade::new(my), &gu).as_f64();
        let seen_x = su.convert(&Speed::new(qs), &msu).as_f64();
        let seen_y = gu.convert(&Grade::new(qg), &mgu).as_f64();
        let replay = || {
            let mut r = settings.clone();
            r["query"] = json!({"speed": qs, "speed_unit": su.to_string(), "grade": qg, "grade_unit": gu.to_string(), "kind": label});
            r
        };
        let got = match catch(|| predict(qs, su, qg, gu)) {
            Err(pm) => {
                rep.violate(&format!("C14|InterpolationSpeedGradeModel::predict|{}|{label}", panic_sig(&pm)), pm, replay);
                continue;
            }
            Ok(Err(e)) => {
                // I4: never fails, inside or outside
                rep.violate(&format!("C14|InterpolationSpeedGradeModel::predict|error|{label}"), format!("I4 prediction failed for ({qs} {su}, {qg} {gu}): {e}"), replay);
                continue;
            }
            Ok(Ok(v)) => v,
        };
        let cx = seen_x.clamp(xs[0], xs[s_bins - 1]);
        let cy = seen_y.clamp(ys[0], ys[g_bins - 1]);
        let (xa, xb) = cell(&xs, cx);
        let (ya, yb) = cell(&ys, cy);
        let mut lo = f64::INFINITY;
        let mut hi = f64::NEG_INFINITY;
        for i in xa..=xb + 1 {
            for j in ya..=yb + 1 {
                lo = lo.min(vals[i][j]);
                hi = hi.max(vals[i][j]);
            }
        }
        let tol = 1e-9 * hi.abs().max(lo.abs()).max(1e-12);
        // I1 within the corner values
        if !(got >= lo - tol && got <= hi + tol) {
            rep.violate(&format!("C14|interpolated|outside-corner-range|{label}"), format!("I1 rate {got} at ({cx}, {cy}) is outside the corner values [{lo}, {hi}]"), replay);
            continue;
        }
        // I2 at grid points
        if label == "grid-point" || label == "upper-corner" {
            let nearest = |axis: &[f64], v: f64| (0..axis.len()).min_by(|a, b| (axis[*a] - v).abs().partial_cmp(&(axis[*b] - v).abs()).unwrap_or(std::cmp::Ordering::Equal)).unwrap_or(0);
            let i = nearest(&xs, cx);
            let j = nearest(&ys, cy);
            // a unit round trip moves the point off the grid point by a fraction of a cell: allow the
            // local variation times that fraction (exactly zero in the model's own units)
            let span = hi - lo;
            let wx = if s_bins > 1 { (xs[s_bins - 1] - xs[0]) / (s_bins - 1) as f64 } else { 1.0 };
            let wy = if g_bins > 1 { (ys[g_bins - 1] - ys[0]) / (g_bins - 1) as f64 } else { 1.0 };
            let off = (cx - xs[i]).abs() / wx + (cy - ys[j]).abs() / wy;
            if (got - vals[i][j]).abs() > 1e-9 * vals[i][j].abs().max(1e-12) + span * off * 2.0 + 1e-12 {
                rep.violate("C14|interpolated|grid-point-value", format!("I2 rate {got} at grid point ({}, {}) but the underlying model gives {}", xs[i], ys[j], vals[i][j]), replay);
                continue;
            }
        }
        // I4 outside = clamped (in model units so that the comparison is exact)
        if label.starts_with("outside") {
            match predict(cx, msu, cy, mgu) {
                Ok(v) => {
                    if !rel_close(v, got, 1e-9, 1e-12) {
                        rep.violate(&format!("C14|interpolated|outside-not-clamped|{label}"), format!("I4 rate {got} outside the grid but the nearest boundary point gives {v}"), replay);
                        continue;
                    }
                }
                Err(e) => {
                    rep.violate("C14|InterpolationSpeedGradeModel::predict|error|boundary", format!("I4 boundary point failed: {e}"), replay);
                    continue;
                }
            }
        }
        // I3 continuity across a border (model units, one axis at a time)
        if pi % 4 == 0 && s_bins > 2 {
            let i = rng.urange(1, s_bins - 2);
            let y = rng.frange(g_lo, g_hi);
            let w = xs[i + 1] - xs[i];
            let d = w * 1e-6;
            if let (Ok(a), Ok(b)) = (predict(xs[i] - d, msu, y, mgu), predict(xs[i] + d, msu, y, mgu)) {
                let (ya, _) = cell(&ys, y);
                let mut spread: f64 = 0.0;
                for ii in i - 1..=i + 1 {
                    for jj in ya..=(ya + 1).min(g_bins - 1) {
                        for kk in i - 1..=i + 1 {
                            for ll in ya..=(ya + 1).min(g_bins - 1) {
                                spread = spread.max((vals[ii][jj] - vals[kk][ll]).abs());
                            }
                        }
                    }
                }
                let bound = 4.0 * d * spread / w + 1e-12 + 1e-9 * a.abs();
                if (a - b).abs() > bound {
                    rep.violate("C14|interpolated|jump-across-border|speed", format!("I3 rate jumps from {a} to {b} across speed grid line {} (bound {bound})", xs[i]), replay);
                    continue;
                }
                rep.count("continuity_checks", 1);
            }
        }
        rep.count("grid_points_checked", 1);
        rep.seen("point_kinds", label.to_string());
        rep.seen("input_units", format!("{su},{gu}"));
        if hi > lo {
            rep.nontrivial(hash_str(&format!("{name}|{s_bins}|{g_bins}|{qs}|{qg}|{su}|{gu}")));
        }
        if pi == 0 {
            rep.sample(|| json!({"model": name, "grid": settings, "query": {"speed": qs, "speed_unit": su.to_string(), "grade": qg, "grade_unit": gu.to_string(), "kind": label}, "rate": got, "corner_range": [lo, hi]}));
        }
    }
    rep.seen("models", name.to_string());
}

// ------------------------------------------------------------------------------------------
// generic interpolators
// ------------------------------------------------------------------------------------------

fn axis(rng: &mut Rng, n: usize) -> Vec<f64> {
    let mut x = rng.frange(-10.0, 10.0);
    (0..n)
        .map(|_| {
            let v = x;
            x += rng.log_uniform(1e-3, 5.0);
            v
        })
        .collect()
}

fn generic_case(rng: &mut Rng, rep: &mut Report) {
    rep.eval();
    let dim = rng.urange(1, 4);
    let lens: Vec<usize> = (0..dim).map(|_| rng.urange(2, 6)).collect();
    let grid: Vec<Vec<f64>> = lens.iter().map(|n| axis(rng, *n)).collect();
    let multilinear = rng.chance(0.6);
    // multilinear function: product of (a_d + b_d x_d) summed with a constant keeps it multilinear
    let coef: Vec<(f64, f64)> = (0..dim).map(|_| (rng.frange(-2.0, 2.0), rng.frange(-2.0, 2.0))).collect();
    let c0 = rng.frange(-5.0, 5.0);
    let f = |p: &[f64]| -> f64 { c0 + p.iter().zip(&coef).map(|(x, (a, b))| a + b * x).product::<f64>() };
    let total: usize = lens.iter().product();
    let mut data = vec![0.0; total];
    let mut idx = vec![0usize; dim];
    for (flat, slot) in data.iter_mut().enumerate() {
        let mut r = flat;
        for d in (0..dim).rev() {
            idx[d] = r % lens[d];
            r /= lens[d];
        }
        let p: Vec<f64> = (0..dim).map(|d| grid[d][idx[d]]).collect();
        *slot = if multilinear { f(&p) } else { rng.frange(-100.0, 100.0) };
    }
    let at = |ix: &[usize]| -> f64 {
        let mut flat = 0;
        for d in 0..dim {
            flat = flat * lens[d] + ix[d];
        }
        data[flat]
    };
    let settings = json!({"dimension": dim, "grid": grid, "multilinear": multilinear});
    let nd = match catch(|| InterpND::new(grid.clone(), ArrayD::from_shape_vec(IxDyn(&lens), data.clone()).expect("shape"))) {
        Ok(Ok(i)) => Interpolator::InterpND(i),
        Ok(Err(e)) => {
            rep.violate("C14|InterpND::new|error", format!("valid grid refused: {e}"), || settings.clone());
            return;
        }
        Err(pm) => {
            rep.violate(&format!("C14|InterpND::new|{}", panic_sig(&pm)), pm, || settings.clone());
            return;
        }
    };
    let fixed: Option<Interpolator> = match dim {
        1 => Interp1D::new(grid[0].clone(), data.clone()).ok().map(Interpolator::Interp1D),
        2 => Interp2D::new(grid[0].clone(), grid[1].clone(), (0..lens[0]).map(|i| (0..lens[1]).map(|j| at(&[i, j])).collect()).collect()).ok().map(Interpolator::Interp2D),
        3 => Interp3D::new(grid[0].clone(), grid[1].clone(), grid[2].clone(), (0..lens[0]).map(|i| (0..lens[1]).map(|j| (0..lens[2]).map(|k| at(&[i, j, k])).collect()).collect()).collect()).ok().map(Interpolator::Interp3D),
        _ => None,
    };
    if dim <= 3 && fixed.is_none() {
        rep.violate(&format!("C14|Interp{dim}D::new|error"), "valid grid refused".into(), || settings.clone());
        return;
    }
    for _ in 0..12 {
        rep.eval();
        let kind = rng.below(5);
        let p: Vec<f64> = (0..dim)
            .map(|d| {
                let a = &grid[d];
                match kind {
                    0 | 1 => rng.frange(a[0], a[a.len() - 1]),
                    2 => a[rng.below(a.len())],
                    3 => {
                        if rng.chance(0.5) { a[a.len() - 1] } else { rng.frange(a[0], a[a.len() - 1]) }
                    }
                    _ => rng.frange(a[0], a[a.len() - 1]),
                }
            })
            .collect();
        let replay = || {
            let mut r = settings.clone();
            r["point"] = json!(p);
            r
        };
        let label = ["interior", "interior", "grid-point", "upper-boundary", "interior"][kind];
        let rn = catch(|| nd.interpolate(&p, &Strategy::Linear));
        let vn = match rn {
            Err(pm) => {
                rep.violate(&format!("C14|InterpND::linear|{}|{label}", panic_sig(&pm)), pm, replay);
                continue;
            }
            Ok(Err(e)) => {
                rep.violate(&format!("C14|InterpND::linear|error-inside-grid|{label}"), format!("point inside the grid refused: {e}"), replay);
                continue;
            }
            Ok(Ok(v)) => v,
        };
        let scale = data.iter().fold(0.0f64, |m, x| m.max(x.abs())).max(1.0);
        if multilinear && !rel_close(vn, f(&p), 1e-9, 1e-9 * scale) {
            rep.violate(&format!("C14|InterpND::linear|multilinear-not-reproduced|dim{dim}"), format!("I5 value {vn} at {p:?}, the multilinear function gives {}", f(&p)), replay);
            continue;
        }
        if let Some(fx) = &fixed {
            match catch(|| fx.interpolate(&p, &Strategy::Linear)) {
                Err(pm) => {
                    rep.violate(&format!("C14|Interp{dim}D::linear|{}|{label}", panic_sig(&pm)), pm, replay);
                    continue;
                }
                Ok(Err(e)) => {
                    rep.violate(&format!("C14|Interp{dim}D::linear|error-inside-grid|{label}"), format!("point inside the grid refused: {e}"), replay);
                    continue;
                }
                Ok(Ok(vf)) => {
                    if !rel_close(vf, vn, 1e-9, 1e-9 * scale) {
                        rep.violate(&format!("C14|Interp{dim}D-vs-InterpND|disagree|{label}"), format!("I6 {dim}-D gives {vf}, N-D gives {vn} at {p:?}"), replay);
                        continue;
                    }
                    if multilinear && !rel_close(vf, f(&p), 1e-9, 1e-9 * scale) {
                        rep.violate(&format!("C14|Interp{dim}D::linear|multilinear-not-reproduced"), format!("I5 value {vf} at {p:?}, the multilinear function gives {}", f(&p)), replay);
                        continue;
                    }
                }
            }
        }
        // I8 the other 1-D strategies return the grid value on grid points
        if dim == 1 && kind == 2 {
            let gi = grid[0].iter().position(|x| *x == p[0]).unwrap_or(0);
            if let Some(fx) = &fixed {
                for st in [Strategy::LeftNearest, Strategy::RightNearest, Strategy::Nearest] {
                    let name = format!("{:?}", st);
                    match fx.interpolate(&p, &st) {
                        Ok(v) if v == data[gi] => {}
                        other => {
                            rep.violate(&format!("C14|Interp1D::{name}|grid-point-value"), format!("I8 strategy {name} at grid point {} gives {:?}, data is {}", p[0], other, data[gi]), replay);
                        }
                    }
                }
            }
        }
        rep.count("generic_points_checked", 1);
        rep.nontrivial(hash_str(&format!("g{dim}|{:?}|{:?}", lens, p)));
    }
    // I7 outside points are refused
    for _ in 0..3 {
        rep.eval();
        let d = rng.below(dim);
        let mut p: Vec<f64> = (0..dim).map(|k| rng.frange(grid[k][0], grid[k][lens[k] - 1])).collect();
        p[d] = if rng.chance(0.5) { grid[d][0] - rng.log_uniform(1e-9, 10.0) } else { grid[d][lens[d] - 1] + rng.log_uniform(1e-9, 10.0) };
        let replay = || {
            let mut r = settings.clone();
            r["point"] = json!(p);
            r
        };
        for (nm, it) in [("InterpND", Some(&nd)), ("fixed", fixed.as_ref())] {
            if let Some(it) = it {
                match catch(|| it.interpolate(&p, &Strategy::Linear)) {
                    Ok(Ok(v)) => rep.violate(&format!("C14|{nm}|outside-point-accepted|dim{dim}"), format!("I7 point {p:?} outside the grid returned {v}"), replay),
                    Err(pm) => rep.violate(&format!("C14|{nm}|{}|outside", panic_sig(&pm)), pm, replay),
                    Ok(Err(_)) => rep.count("outside_rejections", 1),
                }
            }
        }
    }
    rep.seen("dimensions", dim.to_string());
    rep.sample(|| json!({"generic": true, "dimension": dim, "axis_lengths": lens, "multilinear": multilinear}));
}

pub fn run(tier: Tier, seed: u64) -> MonOut {
    let ngrids = tier.n(400, 12_000);
    let npoints = tier.n(600, 3_000);
    let ngeneric = tier.n(100_000, 4_000_000);
    let mut rep = par_cases(seed, ngrids, |_i, rng, rep| grid_case(rng, rep, npoints));
    let r2 = par_cases(seed ^ 0x14, ngeneric, |_i, rng, rep| generic_case(rng, rep));
    rep.merge(r2);
    MonOut {
        report: rep,
        rule: "(i) InterpolationSpeedGradeModel over the four bundled random-forest models x grids (speed bounds {0,5,10}..{60,80,100} mph, grade bounds +-{0.05,0.1,0.2}, 2..41 x 2..21 bins) x query points (interior, grid points, grid lines, upper corner, +-2 ulp around grid lines, outside in speed, outside in grade) given in any of the 3 x 3 speed/grade input units; the underlying model is evaluated by the harness at every grid point. (ii) Interp1D/2D/3D/ND on random non-uniform grids (2..6 points per axis, dimension 1..4) with multilinear (60 %) or random data, points interior / on grid points / on the upper boundary / outside. non-trivial = the surrounding corner values differ (i) resp. every generic point (ii); distinct by (model, grid, point, units)".into(),
        assumptions: vec![
            "the configured grid is n equally spaced points from the lower to the upper bound, computed by the harness itself (accumulating the step, as the documented construction does); the underlying smartcore model evaluated at a point is ground truth".into(),
            "the cell of a point is located in model units after the repo's own unit conversion (C09 covers the conversions); points on a grid line use the corners of both adjacent cells".into(),
            "continuity bound: |f(x-d)-f(x+d)| <= 4 d (max corner spread of the two cells) / (cell width)".into(),
        ],
        floor: 300,
        exhaustive: false,
        explanation: "sampled grids and points; the four bundled models are all used".into(),
    }
}

//! C15 — the loaded network is exactly the one described by the edge/vertex files.
use super::{MonOut, Tier};
use crate::appgen::{build_app, fresh_dir, remove_dir, silence_stderr, AppSpec};
use crate::gen::net::{gen_net, write_text, NetParams, RefNet};
use crate::hooks::{catch, panic_sig};
use crate::oracle::units::rel_close;
use crate::par::par_cases;
use crate::report::Report;
use crate::rng::{hash_str, Rng};
use crate::run::Alg;
use crate::world::{gen_world_on, FrontierCfg, WorldParams};
use routee_compass::app::bindings::CompassAppBindings;
use routee_compass::app::compass::compass_app::CompassApp;
use routee_compass::app::compass::compass_app_error::CompassAppError;
use routee_compass::app::compass::config::compass_app_builder::CompassAppBuilder;
use routee_compass_core::algorithm::search::direction::Direction;
use routee_compass_core::model::network::{EdgeId, Graph, VertexId};
use routee_compass_core::model::traversal::state::state_variable::StateVar;
use routee_compass_core::model::unit::as_f64::AsF64;
use serde_json::{json, Value};
use std::sync::Arc;

pub struct Bound(pub CompassApp);
impl CompassAppBindings for Bound {
    fn from_config_toml_string(config_string: String, original_file_path: String) -> Result<Self, CompassAppError> {
        let b = CompassAppBuilder::default();
        CompassApp::try_from_config_toml_string(config_string, original_file_path, &b).map(Bound)
    }
    fn app(&self) -> &CompassApp {
        &self.0
    }
}

fn sorted(mut v: Vec<usize>) -> Vec<usize> {
    v.sort();
    v
}

/// G1..G6 for a loaded graph
fn check_graph(rep: &mut Report, net: &RefNet, g: &Graph, via: &str, replay: &dyn Fn() -> Value) -> bool {
    let v = |sig: &str, msg: String, rep: &mut Report| {
        rep.violate(&format!("C15|{via}|{sig}"), msg, replay);
        false
    };
    if g.n_edges() != net.ne() || g.n_vertices() != net.nv() {
        return v("size", format!("G1 loaded {} edges / {} vertices, files list {} / {}", g.n_edges(), g.n_vertices(), net.ne(), net.nv()), rep);
    }
    for (i, e) in net.edges.iter().enumerate() {
        let le = match g.get_edge(&EdgeId(i)) {
            Ok(x) => x,
            Err(err) => return v("edge-missing", format!("G2 edge {i} not retrievable: {err}"), rep),
        };
        if le.edge_id.0 != i || le.src_vertex_id.0 != e.src || le.dst_vertex_id.0 != e.dst || le.distance.as_f64() != e.len_m {
            return v("edge-record", format!("G2 edge {i} loaded as {} -> {} ({} m), listed {} -> {} ({} m)", le.src_vertex_id.0, le.dst_vertex_id.0, le.distance.as_f64(), e.src, e.dst, e.len_m), rep);
        }
        match (g.src_vertex_id(&EdgeId(i)), g.dst_vertex_id(&EdgeId(i)), g.edge_triplet(&EdgeId(i))) {
            (Ok(s), Ok(d), Ok((vs, _, vd))) => {
                if s.0 != e.src || d.0 != e.dst || vs.vertex_id.0 != e.src || vd.vertex_id.0 != e.dst {
                    return v("edge-triplet", format!("G4 accessors disagree for edge {i}"), rep);
                }
            }
            _ => return v("edge-triplet", format!("G4 accessors fail for edge {i}"), rep),
        }
        if g.incident_vertex(&EdgeId(i), &Direction::Forward).map(|x| x.0).ok() != Some(e.dst) || g.incident_vertex(&EdgeId(i), &Direction::Reverse).map(|x| x.0).ok() != Some(e.src) {
            return v("incident-vertex", format!("G4 incident_vertex wrong for edge {i}"), rep);
        }
    }
    let (out_adj, in_adj) = (net.out_adj(), net.in_adj());
    let mut sum_out = 0;
    let mut sum_in = 0;
    for x in 0..net.nv() {
        let lo = sorted(g.out_edges(&VertexId(x)).iter().map(|e| e.0).collect());
        let li = sorted(g.in_edges(&VertexId(x)).iter().map(|e| e.0).collect());
        sum_out += lo.len();
        sum_in += li.len();
        let deg = out_adj[x].len().max(in_adj[x].len());
        let dclass = if deg <= 4 { "deg<=4" } else { "deg>=5" };
        if lo != sorted(out_adj[x].clone()) {
            return v(&format!("out-edges|{dclass}"), format!("G3 out_edges({x}) = {lo:?}, listed {:?}", sorted(out_adj[x].clone())), rep);
        }
        if li != sorted(in_adj[x].clone()) {
            return v(&format!("in-edges|{dclass}"), format!("G3 in_edges({x}) = {li:?}, listed {:?}", sorted(in_adj[x].clone())), rep);
        }
        if sorted(g.incident_edges(&VertexId(x), &Direction::Forward).iter().map(|e| e.0).collect()) != lo || sorted(g.incident_edges(&VertexId(x), &Direction::Reverse).iter().map(|e| e.0).collect()) != li {
            return v("incident-edges", format!("G4 incident_edges disagrees with out/in edges at vertex {x}"), rep);
        }
        match g.incident_triplet_ids(&VertexId(x), &Direction::Forward) {
            Ok(t) => {
                if t.iter().any(|(s, e, d)| s.0 != x || net.edges[e.0].src != x || net.edges[e.0].dst != d.0) {
                    return v("incident-triplets", format!("G4 incident_triplet_ids wrong at vertex {x}"), rep);
                }
            }
            Err(e) => return v("incident-triplets", format!("G4 incident_triplet_ids fails at vertex {x}: {e}"), rep),
        }
        // the same triplets against the travel direction, and both directions with the records attached: the first slot is
        // the vertex asked for, the third the vertex at the other end of the edge
        for (dir, adj, rev) in [(Direction::Forward, &out_adj[x], false), (Direction::Reverse, &in_adj[x], true)] {
            let far = |e: usize| if rev { net.edges[e].src } else { net.edges[e].dst };
            let near = |e: usize| if rev { net.edges[e].dst } else { net.edges[e].src };
            match g.incident_triplet_ids(&VertexId(x), &dir) {
                Ok(t) => {
                    if sorted(t.iter().map(|(_, e, _)| e.0).collect()) != sorted(adj.clone()) || t.iter().any(|(s, e, d)| s.0 != x || near(e.0) != x || far(e.0) != d.0) {
                        return v("incident-triplets", format!("G4 incident_triplet_ids({x}, {}) = {:?}", if rev { "reverse" } else { "forward" }, t.iter().map(|(a, e, b)| (a.0, e.0, b.0)).collect::<Vec<_>>()), rep);
                    }
                }
                Err(e) => return v("incident-triplets", format!("G4 incident_triplet_ids fails at vertex {x}: {e}"), rep),
            }
            match g.incident_triplet_attributes(&VertexId(x), &dir) {
                Ok(t) => {
                    let bad = sorted(t.iter().map(|(_, e, _)| e.edge_id.0).collect()) != sorted(adj.clone())
                        || t.iter().any(|(a, e, b)| {
                            let id = e.edge_id.0;
                            a.vertex_id.0 != x || b.vertex_id.0 != far(id) || e.src_vertex_id.0 != net.edges[id].src || e.dst_vertex_id.0 != net.edges[id].dst || b.x() != net.coords[far(id)].0 || b.y() != net.coords[far(id)].1 || a.x() != net.coords[x].0
                        });
                    if bad {
                        return v("incident-triplet-records", format!("G4 incident_triplet_attributes({x}, {}) = {:?}", if rev { "reverse" } else { "forward" }, t.iter().map(|(a, e, b)| (a.vertex_id.0, e.edge_id.0, b.vertex_id.0)).collect::<Vec<_>>()), rep);
                    }
                }
                Err(e) => return v("incident-triplet-records", format!("G4 incident_triplet_attributes fails at vertex {x}: {e}"), rep),
            }
        }
        match g.get_vertex(&VertexId(x)) {
            Ok(lv) => {
                if lv.vertex_id.0 != x || lv.x() != net.coords[x].0 || lv.y() != net.coords[x].1 {
                    return v("vertex-record", format!("G5 vertex {x} loaded at ({}, {}), listed ({}, {})", lv.x(), lv.y(), net.coords[x].0, net.coords[x].1), rep);
                }
            }
            Err(e) => return v("vertex-missing", format!("G5 vertex {x}: {e}"), rep),
        }
        rep.max("max_degree_seen", deg as u64);
    }
    if sum_out != net.ne() || sum_in != net.ne() {
        return v("views-disagree", format!("G6 sum of out-degrees {sum_out}, in-degrees {sum_in}, edges {}", net.ne()), rep);
    }
    true
}

fn case(tier: Tier, rng: &mut Rng, rep: &mut Report) {
    rep.eval();
    let mut p = NetParams::default();
    p.max_v = if rng.chance(0.1) { if tier.thorough { 1500 } else { 300 } } else { 30 };
    p.metric = false;
    let mut net = gen_net(rng, &p);
    // one network in thirty has no edge at all (isolated vertices only: the edge file holds its header and nothing else)
    if rng.fork(0xC150).chance(1.0 / 30.0) {
        net.edges.clear();
        rep.count("networks_without_edges", 1);
    }
    // one network in twelve lists some edges with a length of exactly zero (connectors): rows like any other for the
    // loader. the application-level part, whose time model refuses zero lengths, is left out for these
    let mut zero_lengths = false;
    {
        let mut rz = rng.fork(0xC151);
        if rz.chance(1.0 / 12.0) && !net.edges.is_empty() {
            zero_lengths = true;
            for e in net.edges.iter_mut() {
                if rz.chance(0.2) {
                    e.len_m = 0.0;
                }
            }
            rep.count("networks_with_zero_length_edges", 1);
        }
    }
    let gzip = rng.chance(0.4);
    let perm = rng.below(4);
    let extra = rng.chance(0.5);
    let explicit = rng.chance(0.4);
    let strip_newline = rng.chance(0.3);
    let strip_which = rng.below(3); // both files, the edge file only, the vertex file only
    let settings = json!({"gzip": gzip, "vertex_column_layout": perm, "extra_edge_columns": extra, "explicit_counts": explicit, "no_trailing_newline": strip_newline});
    let replay = || json!({"net": net.to_json(), "files": settings});
    // (a) Graph::from_files
    let dir = fresh_dir("c15");
    let ext = if gzip { ".gz" } else { "" };
    let ep = dir.join(format!("edges.csv{ext}"));
    let vp = dir.join(format!("vertices.csv{ext}"));
    let mut es = net.edges_csv(extra);
    let mut vs = net.vertices_csv(perm);
    if strip_newline {
        if strip_which != 2 {
            es.pop();
        }
        if strip_which != 1 {
            vs.pop();
        }
    } else if rng.chance(0.2) {
        // a blank line after the last row (as editors and exports leave behind)
        if strip_which != 2 {
            es.push('\n');
        }
        if strip_which != 1 {
            vs.push('\n');
        }
    }
    // declared counts are size hints: exact, or generous (a line count that includes the header, a round number)
    let generous = explicit && rng.chance(0.3);
    let pad = if generous { rng.urange(1, 5) } else { 0 };
    if write_text(&ep, &es, gzip).is_err() || write_text(&vp, &vs, gzip).is_err() {
        rep.inconclusive("could not write network files".into());
        remove_dir(&dir);
        return;
    }
    let (ne, nv) = if explicit { (Some(net.ne() + pad), Some(net.nv() + pad)) } else { (None, None) };
    let loaded = catch(|| Graph::from_files(&ep, &vp, ne, nv, Some(false)));
    remove_dir(&dir);
    let mode = format!("{}{}", if gzip { "gzip" } else { "plain" }, if explicit { "+counts" } else { "+scan" });
    match loaded {
        Err(pmsg) => {
            rep.violate(&format!("C15|Graph::from_files|{}", panic_sig(&pmsg)), format!("panicked: {pmsg}"), &replay);
            return;
        }
        Ok(Err(e)) => {
            rep.violate(&format!("C15|Graph::from_files|load-error|{mode}"), format!("well-formed files were refused: {e}"), &replay);
            return;
        }
        Ok(Ok(g)) => {
            if !check_graph(rep, &net, &g, &format!("Graph::from_files|{mode}"), &replay) {
                return;
            }
        }
    }
    rep.seen("file_modes", format!("{mode}|layout{perm}|{}", if extra { "extra_cols" } else { "min_cols" }));
    // (b) through the application and its bindings, plus row alignment of the per-edge tables (G8)
    if net.ne() == 0 || zero_lengths {
        return;
    }
    if net.ne() <= 400 && rng.chance(0.5) {
        let mut wp = WorldParams::default();
        wp.allow_turn_delay = true;
        wp.rich_cost = false;
        let mut world = gen_world_on(rng, &wp, net.clone());
        let classes: Vec<u8> = (0..net.ne()).map(|_| rng.below(6) as u8).collect();
        world.frontier = FrontierCfg::RoadClass { classes: classes.clone(), mapping: vec![] };
        let mut spec = AppSpec::basic(world.clone(), Alg::Dijkstra);
        spec.gzip = gzip;
        spec.vertex_perm = perm;
        spec.extra_edge_cols = extra;
        spec.explicit_counts = explicit;
        let replay2 = || json!({"world": world.to_json(), "files": settings});
        let built = match catch(|| build_app(&spec, "c15app")) {
            Ok(Ok(b)) => b,
            Ok(Err(e)) => {
                rep.violate("C15|CompassApp::try_from|load-error", format!("well-formed configuration refused: {}", e.lines().next().unwrap_or("")), &replay2);
                return;
            }
            Err(pm) => {
                rep.violate(&format!("C15|CompassApp::try_from|{}", panic_sig(&pm)), format!("panicked: {pm}"), &replay2);
                return;
            }
        };
        let g: Arc<Graph> = built.app.search_app.directed_graph.clone();
        if !check_graph(rep, &net, &g, "CompassApp", &replay2) {
            return;
        }
        // bindings accessors
        let text = built.toml.clone();
        match Bound::from_config_toml_string(text, built.config_path.to_string_lossy().to_string()) {
            Ok(b) => {
                let (out_adj, in_adj) = (net.out_adj(), net.in_adj());
                for (i, e) in net.edges.iter().enumerate() {
                    let ok = b.graph_edge_origin(i).ok() == Some(e.src)
                        && b.graph_edge_destination(i).ok() == Some(e.dst)
                        && b.graph_edge_distance(i, None).ok() == Some(e.len_m)
                        && b.graph_edge_distance(i, Some("kilometers".into())).map(|d| rel_close(d, e.len_m / 1000.0, 1e-9, 0.0)).unwrap_or(false);
                    if !ok {
                        rep.violate("C15|CompassAppBindings|edge-accessors", format!("G2 bindings accessors disagree with the file for edge {i}"), &replay2);
                        return;
                    }
                }
                for x in 0..net.nv() {
                    if sorted(b.graph_get_out_edge_ids(x)) != sorted(out_adj[x].clone()) || sorted(b.graph_get_in_edge_ids(x)) != sorted(in_adj[x].clone()) {
                        rep.violate("C15|CompassAppBindings|adjacency-accessors", format!("G3 bindings adjacency disagrees with the file at vertex {x}"), &replay2);
                        return;
                    }
                }
                rep.count("bindings_graphs_checked", 1);
            }
            Err(e) => {
                rep.violate("C15|CompassAppBindings|load-error", format!("from_config_toml_string refused the configuration: {e}"), &replay2);
                return;
            }
        }
        // G8 alignment by row, observed through the models the application built from the tables
        let q = json!({});
        let sa = &built.app.search_app;
        if let (Ok(tm), Ok(am)) = (sa.traversal_model_service.build(&q), sa.access_model_service.build(&q)) {
            let feats = crate::hooks::catch(|| routee_compass::app::search::search_app_ops::collect_features(&q, tm.clone(), am.clone()));
            if let Ok(Ok(f)) = feats {
                if let Ok(sm) = sa.state_model.extend(f) {
                    if let Ok(init) = sm.initial_state() {
                        let names: Vec<String> = sm.indexed_iter().map(|(_, (n, _))| n.clone()).collect();
                        let ti = names.iter().position(|n| n == "time");
                        for e in 0..net.ne() {
                            let tri = match g.edge_triplet(&EdgeId(e)) {
                                Ok(t) => t,
                                Err(_) => continue,
                            };
                            let mut s: Vec<StateVar> = init.clone();
                            if tm.traverse_edge(tri, &mut s, &sm).is_err() {
                                continue;
                            }
                            if let (Some(ti), Some(pt)) = (ti, world.phys_time(e)) {
                                // world.state units equal the model units here
                                let got = s[ti].0 - init[ti].0;
                                if !rel_close(got, pt, 1e-3, 1e-12) {
                                    rep.violate("C15|speed-table|row-misaligned", format!("G8 traversal time of edge {e} is {got}, length / speed[{e}] is {pt}"), &replay2);
                                    return;
                                }
                            }
                        }
                        rep.count("speed_rows_checked", net.ne() as u64);
                        // headings: delay of consecutive pairs
                        if let Some(ti) = ti {
                            let mut n = 0;
                            'pairs: for a in 0..net.ne() {
                                for b in 0..net.ne() {
                                    if a != b && net.edges[a].dst == net.edges[b].src {
                                        if let Some(delay) = world.phys_delay(a, b) {
                                            let (e1, e2) = (g.get_edge(&EdgeId(a)).unwrap(), g.get_edge(&EdgeId(b)).unwrap());
                                            let (v1, v2, v3) = (g.get_vertex(&e1.src_vertex_id).unwrap(), g.get_vertex(&e1.dst_vertex_id).unwrap(), g.get_vertex(&e2.dst_vertex_id).unwrap());
                                            let mut s = init.clone();
                                            if am.access_edge((v1, e1, v2, e2, v3), &mut s, &sm).is_ok() {
                                                let got = s[ti].0 - init[ti].0;
                                                if !rel_close(got, delay, 1e-3, 1e-12) {
                                                    rep.violate("C15|heading-table|row-misaligned", format!("G8 turn delay {a}->{b} is {got}, table says {delay}"), &replay2);
                                                    return;
                                                }
                                                n += 1;
                                                if n > 300 {
                                                    break 'pairs;
                                                }
                                            }
                                        }
                                    }
                                }
                            }
                            rep.count("heading_pairs_checked", n);
                        }
                        // road classes: frontier with exactly one class allowed
                        for c in 0..6u8 {
                            if let Ok(fm) = sa.frontier_model_service.build(&json!({"road_classes": [c]}), Arc::new(sa.state_model.extend(vec![]).unwrap_or_else(|_| routee_compass_core::model::state::state_model::StateModel::empty()))) {
                                for e in 0..net.ne() {
                                    let edge = g.get_edge(&EdgeId(e)).unwrap();
                                    if let Ok(ok) = fm.valid_frontier(edge, &init, None, &sm) {
                                        if ok != (classes[e] == c) {
                                            rep.violate("C15|road-class-table|row-misaligned", format!("G8 edge {e} has class {} but the frontier for class {c} says {ok}", classes[e]), &replay2);
                                            return;
                                        }
                                    }
                                }
                            }
                        }
                        rep.count("road_class_rows_checked", net.ne() as u64);
                    }
                }
            }
        }
        rep.count("application_graphs_checked", 1);
    }
    rep.count("graphs_checked", 1);
    rep.max("max_edges", net.ne() as u64);
    let maxdeg = net.max_out_degree().max(net.max_in_degree());
    if maxdeg >= 5 || net.ne() >= 50 {
        rep.nontrivial(hash_str(&format!("{}|{}|{:?}|{mode}|{perm}", net.nv(), net.ne(), net.edges.iter().take(20).map(|e| (e.src, e.dst)).collect::<Vec<_>>())));
        rep.sample(|| json!({"vertices": net.nv(), "edges": net.ne(), "max_degree": maxdeg, "motifs": net.motifs, "files": settings}));
    }
}

pub fn run(tier: Tier, seed: u64) -> MonOut {
    let saved = silence_stderr();
    let n = tier.n(4_000, 120_000);
    let rep = par_cases(seed, n, |_i, rng, rep| case(tier, rng, rep));
    crate::appgen::restore_stderr(saved);
    MonOut {
        report: rep,
        rule: "generated edge/vertex CSV pairs (2..30 vertices, 10 % up to 300 / thorough 1500; hubs of degree 5..12, parallel edges, self loops, isolated vertices, several blocks), plain or gzip, four vertex column layouts with extra columns, extra edge columns, with explicit or scanned counts, with or without trailing newline; loaded by Graph::from_files and (half of the <=400-edge cases) by CompassApp::try_from and read back through Graph accessors and CompassAppBindings::graph_*; speed, heading and road-class tables checked for row alignment through the traversal / access / frontier models the application builds from them. non-trivial = a vertex of degree >= 5 or >= 50 edges; distinct by (sizes, first edges, file mode)".into(),
        assumptions: vec![
            "edge and vertex ids equal their row index (the file convention the loader relies on)".into(),
            "gzip files carry the .gz extension (the count scan keys on the extension)".into(),
            "coordinates compare exactly as f32, lengths exactly as f64 (written with round-trip formatting)".into(),
        ],
        floor: 100,
        exhaustive: false,
        explanation: "sampled file sets; every accessor compared with the generator's lists".into(),
    }
}

//! C17 — grid search expands a query into exactly the Cartesian product of options.
use super::{MonOut, Tier};
use crate::hooks::{catch, panic_sig};
use crate::par::par_cases;
use crate::report::Report;
use crate::rng::{hash_str, Rng};
use routee_compass::app::compass::compass_app::apply_input_plugins;
use routee_compass::plugin::input::default::grid_search::plugin::GridSearchPlugin;
use routee_compass::plugin::input::input_plugin::InputPlugin;
use serde_json::{json, Map, Value};
use std::sync::Arc;

pub fn canon(v: &Value) -> String {
    match v {
        Value::Object(o) => {
            let mut keys: Vec<&String> = o.keys().collect();
            keys.sort();
            let parts: Vec<String> = keys.iter().map(|k| format!("{}:{}", serde_json::to_string(k).unwrap_or_default(), canon(&o[*k]))).collect();
            format!("{{{}}}", parts.join(","))
        }
        Value::Array(a) => format!("[{}]", a.iter().map(canon).collect::<Vec<_>>().join(",")),
        other => other.to_string(),
    }
}

fn scalar(rng: &mut Rng, tag: &mut u64) -> Value {
    *tag += 1;
    match rng.below(7) {
        0 => json!(*tag),
        1 => json!(format!("s{}", tag)),
        2 => json!((*tag as f64) + 0.5),
        3 => json!(rng.chance(0.5)),
        4 => Value::Null,
        5 => json!([*tag, format!("n{}", tag)]), // nested array is a scalar choice
        _ => json!(-(*tag as i64)),
    }
}

/// a harness-defined input plugin that expands some queries: those whose canonical text has an even hash become two
/// copies marked "half": 1 and 2, the others stay as they are
struct Splitter {}

fn splits(q: &Value) -> bool {
    q.is_object() && hash_str(&canon(q)) % 2 == 0
}

fn split_reference(q: &Value) -> Vec<Value> {
    if splits(q) {
        (1..=2)
            .map(|h| {
                let mut c = q.clone();
                c["half"] = json!(h);
                c
            })
            .collect()
    } else {
        vec![q.clone()]
    }
}

impl InputPlugin for Splitter {
    fn process(&self, input: &mut Value) -> Result<(), routee_compass::plugin::input::InputPluginError> {
        if splits(input) {
            *input = Value::Array(split_reference(input));
        }
        Ok(())
    }
}

struct Case {
    query: Value,
    expected: Vec<Value>,
    axes: Vec<usize>,
}

fn gen_case(rng: &mut Rng) -> Case {
    let mut tag = 0u64;
    let mut base = Map::new();
    let nother = rng.urange(0, 8);
    for i in 0..nother {
        let v = if rng.chance(0.2) { json!({"inner": scalar(rng, &mut tag), "list": [1, 2]}) } else { scalar(rng, &mut tag) };
        base.insert(format!("field{i}"), v);
    }
    let with_grid = rng.chance(0.9);
    if !with_grid {
        let q = Value::Object(base);
        return Case { query: q.clone(), expected: vec![q], axes: vec![] };
    }
    let m = rng.urange(1, 6);
    let mut grid = Map::new();
    let mut axes: Vec<(String, Vec<Value>)> = vec![];
    let mut objkey = 0usize;
    for a in 0..m {
        let len = if rng.chance(0.3) { 1 } else { rng.urange(1, 5) };
        // an axis may reuse the name of an existing field (the choice then replaces that field)
        let name = if nother > 0 && rng.chance(0.15) { format!("field{}", rng.below(nother)) } else { format!("axis{a}") };
        if axes.iter().any(|(n, _)| *n == name) {
            continue;
        }
        let style = rng.below(3); // 0 scalars, 1 objects, 2 mixture
        let opts: Vec<Value> = (0..len)
            .map(|_| {
                let obj = style == 1 || (style == 2 && rng.chance(0.5));
                if obj {
                    // keys unique to this axis so that the statement's merge has a defined outcome
                    let nk = rng.urange(1, 3);
                    let mut o = Map::new();
                    for j in 0..nk {
                        o.insert(format!("ax{a}_k{}", objkey % 3 + j), scalar(rng, &mut tag));
                    }
                    objkey += 1;
                    Value::Object(o)
                } else {
                    scalar(rng, &mut tag)
                }
            })
            .collect();
        axes.push((name, opts));
    }
    // non-array entries of the grid section are ignored by contract
    let mut entries: Vec<(String, Value)> = axes.iter().map(|(n, o)| (n.clone(), Value::Array(o.clone()))).collect();
    if rng.chance(0.3) {
        entries.push(("ignored_scalar".into(), json!(7)));
    }
    if rng.chance(0.2) {
        entries.push(("ignored_object".into(), json!({"a": 1})));
    }
    rng.shuffle(&mut entries);
    for (k, v) in entries {
        grid.insert(k, v);
    }
    // place the grid section at a random position among the other fields
    let mut q = Map::new();
    let pos = rng.below(base.len() + 1);
    for (i, (k, v)) in base.iter().enumerate() {
        if i == pos {
            q.insert("grid_search".into(), Value::Object(grid.clone()));
        }
        q.insert(k.clone(), v.clone());
    }
    if pos >= base.len() {
        q.insert("grid_search".into(), Value::Object(grid.clone()));
    }
    // independent nested-loop product (odometer over the generator's own axis list)
    let mut expected = vec![];
    let total: usize = axes.iter().map(|(_, o)| o.len()).product();
    for mut idx in 0..total {
        let mut inst = base.clone();
        for (name, opts) in &axes {
            let c = &opts[idx % opts.len()];
            idx /= opts.len();
            match c {
                Value::Object(o) => {
                    for (k, v) in o {
                        inst.insert(k.clone(), v.clone());
                    }
                }
                other => {
                    inst.insert(name.clone(), other.clone());
                }
            }
        }
        expected.push(Value::Object(inst));
    }
    Case { query: Value::Object(q), expected, axes: axes.iter().map(|(_, o)| o.len()).collect() }
}

fn compare(rep: &mut Report, via: &str, case: &Case, got: &[Value]) -> bool {
    let shape = if case.axes.is_empty() { "no-grid".to_string() } else { format!("axes={}", case.axes.len().min(3)) };
    let replay = || json!({"via": via, "query": case.query, "axis_lengths": case.axes});
    if got.len() != case.expected.len() {
        rep.violate(&format!("C17|{via}|count|{shape}"), format!("Q1 {} queries generated, product is {}", got.len(), case.expected.len()), replay);
        return false;
    }
    for g in got {
        if g.get("grid_search").is_some() && !case.axes.is_empty() {
            rep.violate(&format!("C17|{via}|grid-section-kept"), "Q3 a generated query still has a grid_search section".into(), replay);
            return false;
        }
    }
    let mut a: Vec<String> = got.iter().map(canon).collect();
    let mut b: Vec<String> = case.expected.iter().map(canon).collect();
    a.sort();
    b.sort();
    if a != b {
        let missing = b.iter().find(|x| !a.contains(x)).cloned().unwrap_or_default();
        let extra = a.iter().find(|x| !b.contains(x)).cloned().unwrap_or_default();
        let dup = a.windows(2).any(|w| w[0] == w[1]) && !b.windows(2).any(|w| w[0] == w[1]);
        let class = if case.axes.is_empty() { "passthrough-changed" } else if dup { "duplicate-combination" } else { "wrong-combination" };
        rep.violate(&format!("C17|{via}|{class}|{shape}"), format!("Q2 generated set differs from the product; missing {missing} ; unexpected {extra}"), replay);
        return false;
    }
    true
}

pub fn run(tier: Tier, seed: u64) -> MonOut {
    let n = tier.n(80_000, 3_000_000);
    let rep = par_cases(seed, n, |_i, rng, rep| {
        rep.eval();
        let case = gen_case(rng);
        let plugin = GridSearchPlugin {};
        // (1) the plugin itself
        let mut q = case.query.clone();
        match catch(|| plugin.process(&mut q)) {
            Err(p) => {
                rep.violate(&format!("C17|GridSearchPlugin::process|{}", panic_sig(&p)), format!("panicked: {p}"), || json!({"query": case.query}));
                return;
            }
            Ok(Err(e)) => {
                rep.violate("C17|GridSearchPlugin::process|error", format!("a well-formed grid section was refused: {e}"), || json!({"query": case.query}));
                return;
            }
            Ok(Ok(())) => {}
        }
        let got: Vec<Value> = if case.axes.is_empty() {
            vec![q.clone()]
        } else {
            match q.as_array() {
                Some(a) => a.clone(),
                None => {
                    rep.violate("C17|GridSearchPlugin::process|not-an-array", "the plugin did not replace the query by an array".into(), || json!({"query": case.query}));
                    return;
                }
            }
        };
        if !compare(rep, "GridSearchPlugin::process", &case, &got) {
            return;
        }
        // (2) through the application's plugin pipeline (includes flattening)
        let plugins: Vec<Arc<dyn InputPlugin>> = vec![Arc::new(GridSearchPlugin {})];
        match catch(|| apply_input_plugins(&case.query, &plugins)) {
            Err(p) => {
                rep.violate(&format!("C17|apply_input_plugins|{}", panic_sig(&p)), format!("panicked: {p}"), || json!({"query": case.query}));
                return;
            }
            Ok(Err(e)) => {
                rep.violate("C17|apply_input_plugins|error", format!("pipeline refused a well-formed query: {}", e), || json!({"query": case.query}));
                return;
            }
            Ok(Ok(v)) => {
                if !compare(rep, "apply_input_plugins", &case, &v) {
                    return;
                }
            }
        }
        // (3) a second expanding plugin behind grid search (the extension point CompassAppBuilder::add_input_plugin): it
        // splits some of the generated queries in two and leaves the others as they are, so the pipeline has to
        // flatten a mixture of expanded and untouched elements
        let plugins2: Vec<Arc<dyn InputPlugin>> = vec![Arc::new(GridSearchPlugin {}), Arc::new(Splitter {})];
        let with_second = rng.chance(0.3);
        let expected2: Vec<Value> = if with_second { case.expected.iter().flat_map(split_reference).collect() } else { vec![] };
        match if with_second { catch(|| apply_input_plugins(&case.query, &plugins2)) } else { Ok(Ok(vec![])) } {
            Err(p) => {
                rep.violate(&format!("C17|apply_input_plugins+second-expander|{}", panic_sig(&p)), format!("panicked: {p}"), || json!({"query": case.query}));
                return;
            }
            Ok(Err(e)) => {
                rep.violate("C17|apply_input_plugins+second-expander|error", format!("pipeline refused a well-formed query: {}", e), || json!({"query": case.query}));
                return;
            }
            Ok(Ok(_)) if !with_second => {}
            Ok(Ok(v)) => {
                let case2 = Case { query: case.query.clone(), expected: expected2, axes: case.axes.clone() };
                if !compare(rep, "apply_input_plugins+second-expander", &case2, &v) {
                    return;
                }
                rep.count("queries_after_second_expander", v.len() as u64);
            }
        }
        rep.count("generated_queries", case.expected.len() as u64);
        rep.max("max_product", case.expected.len() as u64);
        rep.seen("axis_counts", case.axes.len().to_string());
        if case.axes.iter().filter(|l| **l >= 2).count() >= 2 {
            rep.nontrivial(hash_str(&canon(&case.query)));
            rep.sample(|| json!({"query": case.query, "axis_lengths": case.axes, "product": case.expected.len()}));
        }
    });
    MonOut {
        report: rep,
        rule: "random query objects with 0..8 other fields (scalars and nested objects) and a grid section of 1..6 array axes of length 1..5 holding scalars of every JSON type, nested arrays (as scalar choices), objects with axis-private keys, or mixtures, plus non-array entries, in shuffled key order, the section at a random position, axes occasionally named like an existing field; 10 % of the queries have no grid section. run through GridSearchPlugin::process, through apply_input_plugins, and through apply_input_plugins with a second, harness-defined expanding plugin behind grid search that splits about half of the generated queries in two. non-trivial = at least two axes of length >= 2; distinct by canonical query".into(),
        assumptions: vec![
            "the reference is a nested-loop (odometer) product over the generator's own axis list".into(),
            "object choices use keys private to their axis: the outcome of colliding merges is not defined by the statement".into(),
            "empty axes and an empty grid section (m = 0) are outside C17's quantifier; they are driven by C12".into(),
        ],
        floor: 500,
        exhaustive: false,
        explanation: "sampled query shapes; each expansion compared as a multiset with the reference product".into(),
    }
}

//! C19 — the output file holds one intact record per response under any parallelism.
use super::{MonOut, Tier};
use crate::appgen::{build_app, policy_json, silence_stderr, AppSpec, OutputFormat, OutputPlugin, OutputPolicy};
use crate::batch::{gen_batch, gen_batch_spec, BatchWorldOpts, Recorder};
use crate::hooks::{catch, panic_sig, set_app_sink};
use crate::report::Report;
use crate::rng::{hash_str, Rng};
use serde_json::{json, Value};
use std::collections::BTreeMap;
use std::sync::Arc;

/// independent evaluation of a csv mapping expression (mirrors the documented semantics, not the code)
#[derive(Clone, Debug)]
enum Map {
    Path(String),
    Sum(Vec<Map>),
    Optional(Box<Map>),
}

impl Map {
    fn toml(&self) -> String {
        match self {
            Map::Path(p) => format!("\"{p}\""),
            Map::Sum(v) => format!("{{ sum = [{}] }}", v.iter().map(|m| m.toml()).collect::<Vec<_>>().join(", ")),
            Map::Optional(m) => format!("{{ optional = {} }}", m.toml()),
        }
    }
    fn json(&self) -> Value {
        match self {
            Map::Path(p) => json!(p),
            Map::Sum(v) => json!({"sum": v.iter().map(|m| m.json()).collect::<Vec<_>>()}),
            Map::Optional(m) => json!({"optional": m.json()}),
        }
    }
    fn eval(&self, r: &Value) -> Result<Value, ()> {
        match self {
            Map::Path(p) => {
                let mut cur = r;
                for part in p.split('.') {
                    cur = cur.get(part).ok_or(())?;
                }
                Ok(cur.clone())
            }
            Map::Sum(v) => {
                let mut s = 0.0;
                for m in v {
                    match m.eval(r)? {
                        Value::Null => {}
                        Value::Number(n) => s += n.as_f64().ok_or(())?,
                        _ => return Err(()),
                    }
                }
                Ok(json!(s))
            }
            Map::Optional(m) => Ok(m.eval(r).unwrap_or(Value::Null)),
        }
    }
}

fn gen_mapping(rng: &mut Rng, uses_time: bool) -> Vec<(String, Map)> {
    let mut cols = vec![("qid".to_string(), Map::Path("request.qid".into()))];
    let dist = Map::Path("route.traversal_summary.distance".into());
    let mut pool: Vec<(String, Map)> = vec![
        ("distance".into(), dist.clone()),
        ("opt_distance".into(), Map::Optional(Box::new(dist.clone()))),
        ("cost".into(), Map::Optional(Box::new(Map::Path("route.cost.total_cost".into())))),
        ("edges".into(), Map::Optional(Box::new(Map::Path("route_edges".into())))),
        ("iterations".into(), Map::Path("iterations".into())),
        ("missing".into(), Map::Optional(Box::new(Map::Path("no.such.path".into())))),
        ("origin".into(), Map::Optional(Box::new(Map::Path("request.origin_vertex".into())))),
        ("sum_edges_iter".into(), Map::Sum(vec![Map::Optional(Box::new(Map::Path("route_edges".into()))), Map::Optional(Box::new(Map::Path("iterations".into())))])),
        ("variant".into(), Map::Optional(Box::new(Map::Path("request.variant".into())))),
        // a sum of which one part resolves on every success and the other never does: the whole cell is an error (empty)
        ("sum_partial".into(), Map::Sum(vec![Map::Path("route_edges".into()), Map::Path("request.no_such_number".into())])),
        ("note".into(), Map::Optional(Box::new(Map::Path("request.note".into())))),
        // an array-valued path (the edge id list) and an object-valued one: their JSON text holds commas and quotes
        ("path".into(), Map::Optional(Box::new(Map::Path("route.path".into())))),
        ("injected".into(), Map::Optional(Box::new(Map::Path("request.injected".into())))),
        // the search's own error text (quotes, commas, sometimes embedded JSON)
        ("failure".into(), Map::Optional(Box::new(Map::Path("error".into())))),
    ];
    if uses_time {
        pool.push(("time".into(), Map::Optional(Box::new(Map::Path("route.traversal_summary.time".into())))));
        pool.push(("sum_state".into(), Map::Sum(vec![dist, Map::Path("route.traversal_summary.time".into())])));
    }
    rng.shuffle(&mut pool);
    let k = rng.urange(1, pool.len());
    cols.extend(pool.into_iter().take(k));
    rng.shuffle(&mut cols);
    // column names in mixed case and with digits / '_' / '-' so that byte order, case-folded order and
    // declaration order all differ (bare TOML keys; names stay distinct after case folding)
    if rng.chance(0.6) {
        for (i, (name, _)) in cols.iter_mut().enumerate() {
            let base = name.clone();
            *name = match rng.below(6) {
                0 => base,
                1 => base.to_uppercase(),
                2 => {
                    let mut c = base.chars();
                    c.next().map(|f| f.to_uppercase().collect::<String>() + c.as_str()).unwrap_or_default()
                }
                3 => format!("Z{i}_{base}"),
                4 => format!("{}-{base}", i % 3),
                _ => format!("_{base}"),
            };
        }
    }
    cols
}

fn parse_csv(text: &str) -> Result<(Vec<String>, Vec<Vec<String>>), String> {
    let mut rdr = csv::ReaderBuilder::new().has_headers(false).flexible(true).from_reader(text.as_bytes());
    let mut rows = vec![];
    for rec in rdr.records() {
        let rec = rec.map_err(|e| e.to_string())?;
        rows.push(rec.iter().map(|s| s.to_string()).collect::<Vec<_>>());
    }
    if rows.is_empty() {
        return Err("empty file".into());
    }
    let header = rows.remove(0);
    Ok((header, rows))
}

/// a string as JSON writes it, without the surrounding quotes (the csv format renders text cells as JSON strings)
fn json_inner(s: &str) -> String {
    let j = serde_json::to_string(s).unwrap_or_default();
    if j.len() >= 2 {
        j[1..j.len() - 1].to_string()
    } else {
        j
    }
}

fn cell_text(v: &Value) -> String {
    // a csv reader removes the quotes json puts around strings
    match v {
        Value::String(s) => s.clone(),
        other => other.to_string(),
    }
}

fn key_of(r: &Value) -> String {
    let q = &r["request"];
    format!("{}|{}|{}|{}", q["qid"].as_str().unwrap_or("?"), q["variant"].as_str().unwrap_or(""), q["tag"].as_str().unwrap_or(""), q.get("weights").map(|w| w.to_string()).unwrap_or_default())
}

fn case(tier: Tier, case_no: usize, rng: &mut Rng, rep: &mut Report) {
    let mut opts = BatchWorldOpts::default();
    opts.allow_ksp = true;
    let mut spec: AppSpec = gen_batch_spec(rng, &opts);
    let csv_mode = rng.chance(0.45);
    let big_payload = !csv_mode && rng.chance(0.35);
    spec.output_plugins = vec![OutputPlugin::Summary, OutputPlugin::Traversal { route: Some(if big_payload { "json".into() } else { "edge_id".into() }), tree: if big_payload { Some("json".into()) } else { None } }];
    let mapping = gen_mapping(rng, spec.world.uses_time());
    let sorted = rng.chance(0.5);
    let format = if csv_mode { OutputFormat::Csv { mapping: mapping.iter().map(|(k, m)| (k.clone(), m.toml())).collect(), sorted } } else { OutputFormat::Ndjson };
    let flush = if rng.chance(0.5) { Some(rng.urange(1, 50) as i64) } else { None };
    spec.persist = rng.chance(0.6);
    // the file lives in the application's work directory; the name is fixed up after the directory is known
    let dir_probe = crate::appgen::fresh_dir("c19out");
    let filename = dir_probe.join(if csv_mode { "responses.csv" } else { "responses.ndjson" }).to_string_lossy().to_string();
    let file_policy = OutputPolicy::File { filename: filename.clone(), format: format.clone(), flush_rate: flush };
    let combined = rng.chance(0.15);
    // a csv policy is given either in the TOML (whose configuration layer folds keys, hence column names, to lower
    // case) or per run as JSON (names kept as written) - for all runs of the case, since they share one header
    let csv_per_run = csv_mode && !combined && rng.chance(0.5);
    let second = dir_probe.join("second.ndjson").to_string_lossy().to_string();
    spec.output = if csv_per_run { OutputPolicy::None } else if combined { OutputPolicy::Combined(vec![file_policy.clone(), OutputPolicy::File { filename: second.clone(), format: OutputFormat::Ndjson, flush_rate: None }]) } else { file_policy.clone() };
    let built = match catch(|| build_app(&spec, "c19")) {
        Ok(Ok(b)) => b,
        Ok(Err(e)) => {
            rep.violate("C19|CompassApp::try_from|load-error", format!("well-formed configuration refused: {}", e.lines().next().unwrap_or("")), || json!({"toml": e}));
            crate::appgen::remove_dir(&dir_probe);
            return;
        }
        Err(pm) => {
            rep.violate(&format!("C19|CompassApp::try_from|{}", panic_sig(&pm)), pm, || json!({}));
            crate::appgen::remove_dir(&dir_probe);
            return;
        }
    };
    // small batches matter for the file's first lines (a file holding a single record when the next run starts)
    let n = if rng.chance(0.15) { if rng.chance(0.4) { 1 } else { rng.urange(1, 5) } } else { rng.urange(5, if tier.thorough { 600 } else { 150 }) };
    // valid and failing queries, no non-object queries (they carry no qid to pair rows with)
    let batch: Vec<Value> = gen_batch(rng, &spec, n, 0.12, &format!("s{case_no}q")).into_iter().map(|b| b.0).filter(|q| q.is_object()).collect();
    // free-text field echoed in the request: commas, quotes, backslashes, line breaks, tabs, non-ASCII
    const NOTES: [&str; 10] = ["alpha", "with, comma", "tab\there", "line1\nline2", "say \"hi\"", "say \"hi\", then go", "back\\slash", "mixed \"q\", \\ and\nnewline", "accents \u{e9} \u{fc} \u{6f22}", "trailing quote\""];
    let batch: Vec<Value> = batch
        .into_iter()
        .map(|mut q| {
            // decided by the query's id, so that verbatim copies of a query stay verbatim
            let h = hash_str(&q["qid"].to_string());
            if h % 2 == 0 {
                if let Some(o) = q.as_object_mut() {
                    o.insert("note".into(), json!(NOTES[(h / 2) as usize % NOTES.len()]));
                }
            }
            q
        })
        .collect();
    let fmt = if csv_mode { "csv" } else { "ndjson" };
    let base_replay = json!({"toml": built.toml, "batch": batch});
    // queries that fail in the input plugins never reach the sink (their error responses are appended to
    // the returned vector directly): determined by running the plugin pipeline on each query
    let failing_qids: std::collections::HashSet<String> = batch
        .iter()
        .filter(|q| routee_compass::app::compass::compass_app::apply_input_plugins(q, &built.app.input_plugins).is_err())
        .filter_map(|q| q["qid"].as_str().map(String::from))
        .collect();
    let is_input_failure = |r: &Value| -> bool { r["request"]["qid"].as_str().map(|q| failing_qids.contains(q)).unwrap_or(true) };
    // reference without any sink: what the caller gets back
    set_app_sink(None);
    let reference = match catch(|| built.app.run(batch.clone(), Some(&json!({"response_output_policy": {"type": "none"}, "response_persistence_policy": "persist_response_in_memory", "parallelism": 1})))) {
        Ok(Ok(v)) => v,
        other => {
            rep.count("reference_run_failed_(C06/C12)", 1);
            let _ = other;
            crate::appgen::remove_dir(&dir_probe);
            return;
        }
    };
    let mut ref_by_key: BTreeMap<String, Vec<Value>> = BTreeMap::new();
    for r in &reference {
        ref_by_key.entry(key_of(r)).or_default().push(r.clone());
    }
    let repeats = if batch.len() <= 2 { rng.urange(2, 3) } else { rng.urange(1, 3) };
    let mut expected_rows_total = 0usize;
    let mut returned_all: Vec<Value> = vec![];
    let mut all_ok = true;
    for run_no in 0..repeats {
        rep.eval();
        let par = *rng.pick(&[1usize, 2, 3, 4, 8, 16, 32]);
        let mut perm = batch.clone();
        rng.shuffle(&mut perm);
        let rec = Arc::new(Recorder::new(rng.next_u64(), true));
        let rc = rec.clone();
        set_app_sink(Some(Arc::new(move |ev| rc.on_event(ev))));
        // half of the runs give the policy per run instead of relying on the configuration
        let mut cfg = json!({"parallelism": par});
        if !csv_mode && !combined && rng.chance(0.5) {
            cfg["response_output_policy"] = policy_json(&file_policy);
        }
        if csv_per_run {
            let mut pj = policy_json(&file_policy);
            pj["format"] = json!({"type": "csv", "sorted": sorted, "mapping": Value::Object(mapping.iter().map(|(k, m)| (k.clone(), m.json())).collect())});
            cfg["response_output_policy"] = pj;
        }
        let out = catch(|| built.app.run(perm.clone(), Some(&cfg)));
        set_app_sink(None);
        let trace = rec.summarise();
        let replay = || {
            let mut r = base_replay.clone();
            r["batch"] = json!(perm);
            r["run_config"] = cfg.clone();
            r
        };
        let returned = match out {
            Err(pm) => {
                rep.violate(&format!("C19|run|{}|{fmt}", panic_sig(&pm)), format!("run() with a file sink panicked: {pm}"), replay);
                all_ok = false;
                break;
            }
            Ok(Err(e)) => {
                rep.violate(&format!("C19|run|returns-err|{fmt}"), format!("W6 run() with a file sink returned Err although the batch runs without a sink: {e}"), replay);
                all_ok = false;
                break;
            }
            Ok(Ok(v)) => v,
        };
        // responses that went through the sink = all that are not input-plugin failures
        expected_rows_total += reference.iter().filter(|r| !is_input_failure(r)).count();
        if spec.persist {
            // W5 nothing removed or replaced in what the caller gets back
            let mut got_by_key: BTreeMap<String, Vec<Value>> = BTreeMap::new();
            for r in &returned {
                got_by_key.entry(key_of(r)).or_default().push(r.clone());
            }
            'w5: for (k, refs) in &ref_by_key {
                let gots = got_by_key.get(k).cloned().unwrap_or_default();
                if gots.len() != refs.len() {
                    rep.violate(&format!("C19|returned-responses|count|{fmt}"), format!("W2 {} responses returned for {k}, {} without a sink", gots.len(), refs.len()), replay);
                    all_ok = false;
                    break 'w5;
                }
                for (g, r) in gots.iter().zip(refs) {
                    if let Some(lost) = first_lost_field(r, g) {
                        rep.violate(&format!("C19|returned-response|information-replaced|{fmt}|{}", lost.split('=').next().unwrap_or("")), format!("W5 the response handed back for {k} lost or changed {lost}"), replay);
                        all_ok = false;
                        break 'w5;
                    }
                }
            }
            returned_all.extend(returned.iter().cloned());
        } else {
            // discard policy: what went through the sink is dropped from memory; a query that failed in the input plugins
            // never reaches the sink, so the returned vector is the only place where its error response exists
            let mut got_by_key: BTreeMap<String, Vec<Value>> = BTreeMap::new();
            for r in &returned {
                got_by_key.entry(key_of(r)).or_default().push(r.clone());
            }
            for (k, refs) in &ref_by_key {
                let want = refs.iter().filter(|r| is_input_failure(r)).count();
                let got = got_by_key.get(k).map(|v| v.len()).unwrap_or(0);
                if got < want {
                    rep.violate(&format!("C19|returned-responses|discard-policy|input-failure-has-no-response-anywhere|{fmt}"), format!("W2 {k}: failed in the input plugins (never written to the file) and {got} of {want} error responses were handed back"), replay);
                    all_ok = false;
                    break;
                }
            }
            rep.count("discard_policy_runs", 1);
        }
        rep.count("sink_runs", 1);
        rep.count("hook_events_observed", trace.n_events as u64);
        rep.count("writes_observed", trace.write_order as u64);
        rep.count("writer_switches_observed", trace.writer_switches as u64);
        rep.max("max_in_flight_queries", trace.max_inflight as u64);
        rep.seen("completion_orders", format!("{:016x}", hash_str(&trace.completion.join(","))));
        rep.seen("parallelism_values", par.to_string());
        if run_no == 0 {
            rep.sample(|| json!({"format": fmt, "sorted_header": sorted, "columns": mapping.iter().map(|(k, _)| k.clone()).collect::<Vec<_>>(), "batch_size": perm.len(), "parallelism": par, "flush_rate": flush, "persist": spec.persist, "appending_runs": repeats, "writer_switches": trace.writer_switches, "large_payload": big_payload}));
        }
        if !all_ok {
            break;
        }
    }
    // ---- the command-line runner: a second application built from the same TOML, the batch read from a query file
    // (one JSON array, or newline-delimited JSON run in chunks), every chunk appending to the same output file ----
    let mut cli_ran = false;
    let mut appended: Option<String> = None;
    let rows_before_cli = expected_rows_total;
    let text_before_cli = std::fs::read_to_string(&filename).unwrap_or_default();
    if all_ok && !csv_per_run && rng.chance(0.3) {
        use routee_compass::app::cli::{cli_args::CliArgs, run::command_line_runner};
        let ndjson = rng.chance(0.7);
        let mut perm = batch.clone();
        rng.shuffle(&mut perm);
        let qpath = dir_probe.join(if ndjson { "queries.ndjson" } else { "queries.json" });
        let (qtext, chunksize, shape) = if ndjson {
            let c = *rng.pick(&[1usize, 2, 3, 7, 16, perm.len().max(1), perm.len() + 5]);
            let mut t = String::new();
            let mut junk = 0;
            for q in &perm {
                if rng.chance(0.03) {
                    // a line that is not JSON is reported by the runner and answers nothing
                    t.push_str("{\"origin_vertex\": 0, not json\n");
                    junk += 1;
                }
                t.push_str(&q.to_string());
                t.push('\n');
            }
            let rel = if c == 1 { "1" } else if c < perm.len() { "<n" } else if c == perm.len() { "=n" } else { ">n" };
            (t, Some(c as i64), format!("ndjson chunk{rel}{}", if junk > 0 { " +unparseable lines" } else { "" }))
        } else {
            (Value::Array(perm.clone()).to_string(), None, "json array".to_string())
        };
        let _ = std::fs::write(&qpath, &qtext);
        let args = CliArgs { config_file: built.config_path.to_string_lossy().to_string(), query_file: qpath.to_string_lossy().to_string(), chunksize, newline_delimited: ndjson };
        set_app_sink(None);
        let replay = || {
            let mut r = base_replay.clone();
            r["cli"] = json!({"query_file_text": qtext, "chunksize": chunksize, "newline_delimited": ndjson});
            r
        };
        rep.eval();
        match catch(|| command_line_runner(&args, None, None)) {
            Err(pm) => {
                rep.violate(&format!("C19|command_line_runner|{}|{fmt}", panic_sig(&pm)), format!("the command-line runner panicked: {pm}"), replay);
                all_ok = false;
            }
            Ok(Err(e)) => {
                rep.violate(&format!("C19|command_line_runner|returns-err|{fmt}"), format!("W6 the command-line runner returned Err for a batch that CompassApp::run answers: {e}"), replay);
                all_ok = false;
            }
            Ok(Ok(())) => {
                cli_ran = true;
                rep.count("command_line_runs", 1);
                rep.seen("command_line_shapes", shape);
                let after = std::fs::read_to_string(&filename).unwrap_or_default();
                match after.strip_prefix(text_before_cli.as_str()) {
                    Some(rest) => appended = Some(rest.to_string()),
                    None => {
                        rep.violate(&format!("C19|file|earlier-records-changed-by-an-appending-application|{fmt}"), "W2 the file no longer starts with what it held before a second application appended to it".into(), replay);
                        all_ok = false;
                    }
                }
            }
        }
    }
    // ---- the file ----
    // phase 0: what the runs of this application wrote; phase 1: what the second application (command-line runner)
    // appended - judged as a file of its own under the header that is already there
    let sink_refs: Vec<&Value> = reference.iter().filter(|r| !is_input_failure(r)).collect();
    let mut phases: Vec<(String, usize, usize, bool)> = vec![];
    if all_ok {
        phases.push((text_before_cli.clone(), repeats, rows_before_cli, false));
        if let Some(rest) = &appended {
            let head = if csv_mode { text_before_cli.lines().next().map(|l| format!("{l}\n")).unwrap_or_default() } else { String::new() };
            phases.push((format!("{head}{rest}"), 1, sink_refs.len(), true));
        }
    }
    for (text, repeats, rows_expected, second_app) in phases {
        let replay = || {
            let mut r = base_replay.clone();
            if second_app {
                r["written_by"] = json!("a second application built from the same TOML (command-line runner), appending to the file");
            }
            r
        };
        if csv_mode {
            match parse_csv(&text) {
                Err(e) => rep.violate("C19|file|csv-unreadable", format!("W1 the csv file does not parse: {e}"), replay),
                Ok((header, rows)) => {
                    // sorted: alphabetical header. otherwise the order is whatever the configuration layer hands
                    // over (an inline TOML table has no guaranteed order); the statement only requires the rows to
                    // follow the header, so any permutation of the configured columns is a valid header
                    // the TOML configuration layer folds keys - hence column names - to lower case in some positions
                    // (not inside an array of policies); a policy given per run keeps them. names are therefore matched
                    // up to ASCII case (they are distinct after folding by construction) unless given per run, and
                    // "sorted" is judged on the names the file actually carries
                    let fold = |s: &String| if csv_per_run { s.clone() } else { s.to_lowercase() };
                    let mut expect_header: Vec<String> = mapping.iter().map(|c| fold(&c.0)).collect();
                    expect_header.sort();
                    let mut header_folded: Vec<String> = header.iter().map(fold).collect();
                    header_folded.sort();
                    let mut header_sorted = header.clone();
                    header_sorted.sort();
                    let header_ok = header_folded == expect_header && (!sorted || header == header_sorted);
                    let cols: Vec<(String, Map)> = header.iter().filter_map(|h| mapping.iter().find(|(k, _)| fold(k) == fold(h)).cloned()).collect();
                    if !header_ok || cols.len() != header.len() {
                        rep.violate("C19|file|csv-header", format!("W4 header {header:?}, configured columns {expect_header:?}"), replay);
                    } else if rows.iter().any(|r| r == &header) {
                        rep.violate("C19|file|csv-header-repeated", "W4 the header occurs again among the rows".into(), replay);
                    } else if let Some(bad) = rows.iter().find(|r| r.len() != header.len()) {
                        rep.violate("C19|file|csv-row-width", format!("W1 a row has {} cells for {} columns: {bad:?}", bad.len(), header.len()), replay);
                    } else if rows.len() != rows_expected {
                        rep.violate("C19|file|csv-row-count", format!("W2 {} rows for {} responses written over {repeats} runs", rows.len(), rows_expected), replay);
                    } else {
                        // W2 bijection on qid and W4 cell values
                        let qi = header.iter().position(|h| h.to_lowercase().ends_with("qid")).unwrap_or(0);
                        let mut want: BTreeMap<String, Vec<Vec<String>>> = BTreeMap::new();
                        for r in &sink_refs {
                            let cells: Vec<String> = cols.iter().map(|(_, m)| m.eval(r).map(|v| cell_text(&v)).unwrap_or_default()).collect();
                            for _ in 0..repeats {
                                want.entry(cells[qi].clone()).or_default().push(cells.clone());
                            }
                        }
                        let mut got: BTreeMap<String, Vec<Vec<String>>> = BTreeMap::new();
                        for r in &rows {
                            got.entry(r[qi].clone()).or_default().push(r.clone());
                        }
                        for v in want.values_mut() {
                            v.sort();
                        }
                        for v in got.values_mut() {
                            v.sort();
                        }
                        // rows that are the right rows up to one reordering of the columns (only possible to tell for
                        // a second application with an unsorted mapping): cells canonicalised and sorted within the row
                        let canon = |c: &String, expected: bool| match c.parse::<f64>() {
                            Ok(x) => format!("{x:.6e}"),
                            // text cells are written JSON-escaped, array and object cells as their JSON text
                            Err(_) => if expected && !matches!(serde_json::from_str::<Value>(c), Ok(Value::Array(_)) | Ok(Value::Object(_))) { json_inner(c) } else { c.clone() },
                        };
                        let bag = |rows: Vec<Vec<String>>, expected: bool| {
                            let mut v: Vec<String> = rows
                                .iter()
                                .map(|r| {
                                    let mut cs: Vec<String> = r.iter().map(|c| canon(c, expected)).collect();
                                    cs.sort();
                                    cs.join("\u{1f}")
                                })
                                .collect();
                            v.sort();
                            v
                        };
                        let strict_ok = want.keys().collect::<Vec<_>>() == got.keys().collect::<Vec<_>>()
                            && want.iter().all(|(k, w)| {
                                let g = &got[k];
                                w.len() == g.len() && w.iter().zip(g).all(|(a, b)| a.iter().zip(b).all(|(x, y)| x == y || json_inner(x) == *y || matches!((x.parse::<f64>(), y.parse::<f64>()), (Ok(p), Ok(q)) if crate::oracle::units::rel_close(p, q, 1e-9, 0.0))))
                            });
                        if !strict_ok && second_app && !sorted && bag(want.values().flatten().cloned().collect(), true) == bag(rows.clone(), false) {
                            rep.violate("C19|file|csv|rows-appended-by-a-second-application-follow-its-own-column-order", format!("W4 header {header:?}; the rows appended by a second application built from the same TOML hold the right cells in another column order, e.g. {:?}", rows.first()), replay);
                        } else if want.keys().collect::<Vec<_>>() != got.keys().collect::<Vec<_>>() {
                            rep.violate("C19|file|csv-rows-not-a-bijection", "W2 the qids of the rows are not the qids of the responses".into(), replay);
                        } else {
                            for (k, w) in &want {
                                let g = &got[k];
                                // numeric cells compare as numbers
                                let same = w.len() == g.len() && w.iter().zip(g).all(|(a, b)| a.iter().zip(b).all(|(x, y)| x == y || json_inner(x) == *y || matches!((x.parse::<f64>(), y.parse::<f64>()), (Ok(p), Ok(q)) if crate::oracle::units::rel_close(p, q, 1e-9, 0.0))));
                                if !same {
                                    rep.violate("C19|file|csv-cell-value", format!("W4 rows for {k}: file {g:?}, mapping applied to the response {w:?}"), replay);
                                    break;
                                }
                            }
                            rep.count("csv_rows_confirmed", rows.len() as u64);
                        }
                    }
                }
            }
        } else {
            let lines: Vec<&str> = text.lines().collect();
            let mut parsed = vec![];
            let mut bad = None;
            for (i, l) in lines.iter().enumerate() {
                match serde_json::from_str::<Value>(l) {
                    Ok(v) => parsed.push(v),
                    Err(e) => {
                        bad = Some((i, e.to_string(), l.chars().take(160).collect::<String>()));
                        break;
                    }
                }
            }
            if let Some((i, e, l)) = bad {
                rep.violate("C19|file|ndjson-line-unparseable", format!("W1 line {i} does not parse ({e}): {l}"), replay);
            } else if parsed.len() != rows_expected {
                rep.violate("C19|file|ndjson-record-count", format!("W2 {} records for {} responses written over {repeats} runs", parsed.len(), rows_expected), replay);
            } else {
                // W2/W3: multiset of records == multiset of responses (volatile timing fields removed)
                let mut want: Vec<Value> = vec![];
                for r in &sink_refs {
                    for _ in 0..repeats {
                        want.push((*r).clone());
                    }
                }
                match multiset_diff(&want, &parsed) {
                    Some(d) => rep.violate("C19|file|ndjson-records-differ-from-responses", format!("W3 the file's records are not the responses that were produced: {d}"), replay),
                    None => {
                        rep.count("ndjson_records_confirmed", parsed.len() as u64);
                        rep.max("max_record_bytes", lines.iter().map(|l| l.len()).max().unwrap_or(0) as u64);
                    }
                }
                if spec.persist && !returned_all.is_empty() && !second_app {
                    // with persistence the records also equal what was handed back in these very runs
                    let back: Vec<Value> = returned_all.iter().filter(|r| !is_input_failure(r)).cloned().collect();
                    if let Some(d) = multiset_diff(&back, &parsed) {
                        rep.violate("C19|file|ndjson-records-differ-from-returned", format!("W3 the file's records are not the responses handed back by the same runs: {d}"), replay);
                    }
                }
            }
        }
        if batch.len() >= 5 {
            rep.nontrivial(hash_str(&format!("{fmt}|{}|{}|{repeats}", built.toml.len(), batch.len())));
        }
    }
    rep.seen("formats", format!("{fmt}{}{}", if combined { "+combined" } else { "" }, if spec.persist { "+persist" } else { "+discard" }));
    crate::appgen::remove_dir(&dir_probe);
}

fn diff_path(a: &Value, b: &Value, path: String) -> Option<String> {
    match (a, b) {
        (Value::Object(x), Value::Object(y)) => {
            for (k, v) in x {
                match y.get(k) {
                    None => return Some(format!("{path}.{k} (absent in the file)")),
                    Some(w) => {
                        if let Some(d) = diff_path(v, w, format!("{path}.{k}")) {
                            return Some(d);
                        }
                    }
                }
            }
            for k in y.keys() {
                if !x.contains_key(k) {
                    return Some(format!("{path}.{k} (only in the file)"));
                }
            }
            None
        }
        (Value::Array(x), Value::Array(y)) => {
            if x.len() != y.len() {
                return Some(format!("{path} (length {} vs {})", x.len(), y.len()));
            }
            for (i, (v, w)) in x.iter().zip(y).enumerate() {
                if let Some(d) = diff_path(v, w, format!("{path}[{i}]")) {
                    return Some(d);
                }
            }
            None
        }
        (x, y) => {
            if x == y { None } else { Some(format!("{path}: {x} vs {y}")) }
        }
    }
}

/// order-insensitive parts are put into a canonical order: the per-query state vector has no fixed slot
/// order between two builds of the state model, and tree branches are rendered in hash-map order
fn normalise_states(v: &mut Value) {
    fn branch_key(e: &Value) -> (u64, u64, String) {
        if let Some(n) = e.as_u64() {
            return (n, 0, String::new());
        }
        let id = e["edge_traversal"]["edge_id"].as_u64().or_else(|| e["id"].as_u64()).unwrap_or(u64::MAX);
        (id, e["terminal_vertex"].as_u64().unwrap_or(0), if id == u64::MAX { e.to_string() } else { String::new() })
    }
    fn sort_tree(v: &mut Value) {
        if let Some(a) = v.as_array_mut() {
            if !a.is_empty() && a.iter().all(|e| e.is_array()) {
                a.iter_mut().for_each(sort_tree);
            } else {
                a.sort_by_key(branch_key);
            }
        } else if let Some(f) = v.get_mut("features") {
            sort_tree(f);
        }
    }
    match v {
        Value::Object(o) => {
            for (k, x) in o.iter_mut() {
                if k == "tree" {
                    normalise_states(&mut *x);
                    sort_tree(x);
                } else if k == "result_state" {
                    if let Some(a) = x.as_array_mut() {
                        a.sort_by(|p, q| p.as_f64().partial_cmp(&q.as_f64()).unwrap_or(std::cmp::Ordering::Equal));
                    }
                } else if k == "index" {
                    *x = Value::Null;
                } else {
                    normalise_states(x);
                }
            }
        }
        Value::Array(a) => a.iter_mut().for_each(normalise_states),
        _ => {}
    }
}

const VOLATILE: [&str; 4] = ["output_plugin_executed_time", "search_executed_time", "search_runtime", "search_result_size_mib"];

/// structural equality with numbers compared at 1e-12 (serde_json without float_roundtrip may parse a
/// decimal one ulp off, so text read back from the file cannot be compared bit for bit)
fn approx_eq(a: &Value, b: &Value) -> bool {
    match (a, b) {
        (Value::Number(x), Value::Number(y)) => {
            if x == y {
                return true;
            }
            match (x.as_f64(), y.as_f64()) {
                (Some(p), Some(q)) => crate::oracle::units::rel_close(p, q, 1e-12, 0.0),
                _ => false,
            }
        }
        (Value::Object(x), Value::Object(y)) => x.len() == y.len() && x.iter().all(|(k, v)| y.get(k).map(|w| approx_eq(v, w)).unwrap_or(false)),
        (Value::Array(x), Value::Array(y)) => x.len() == y.len() && x.iter().zip(y).all(|(v, w)| approx_eq(v, w)),
        (x, y) => x == y,
    }
}

fn prepared(v: &Value) -> Value {
    let mut v = v.clone();
    if let Some(o) = v.as_object_mut() {
        for k in VOLATILE {
            o.remove(k);
        }
    }
    normalise_states(&mut v);
    v
}

/// multiset equality of two response lists under `approx_eq`, paired by key; returns the first unmatched
fn multiset_diff(want: &[Value], got: &[Value]) -> Option<String> {
    let mut by_key: BTreeMap<String, Vec<Value>> = BTreeMap::new();
    for g in got {
        by_key.entry(key_of(g)).or_default().push(prepared(g));
    }
    for w in want {
        let k = key_of(w);
        let pw = prepared(w);
        let bucket = by_key.entry(k.clone()).or_default();
        match bucket.iter().position(|g| approx_eq(&pw, g)) {
            Some(i) => {
                bucket.remove(i);
            }
            None => {
                let d = bucket.first().and_then(|g| diff_path(&pw, g, String::new())).unwrap_or_else(|| "no record with this key".to_string());
                return Some(format!("{k}: {d}"));
            }
        }
    }
    if let Some((k, _)) = by_key.iter().find(|(_, v)| !v.is_empty()) {
        return Some(format!("{k}: a record without a response"));
    }
    None
}

/// W5: every field of the sink-less response survives in the response returned with a sink
fn first_lost_field(reference: &Value, got: &Value) -> Option<String> {
    let (r, g) = (reference.as_object()?, got.as_object()?);
    for (k, v) in r {
        if ["output_plugin_executed_time", "search_executed_time", "search_runtime", "search_result_size_mib"].contains(&k.as_str()) {
            continue;
        }
        match g.get(k) {
            None => return Some(format!("{k}=<removed>")),
            Some(w) => {
                let (mut a, mut b) = (json!({k.clone(): v.clone()}), json!({k.clone(): w.clone()}));
                normalise_states(&mut a);
                normalise_states(&mut b);
                if !approx_eq(&a, &b) {
                    return Some(format!("{k}= {} -> {}", v.to_string().chars().take(120).collect::<String>(), w.to_string().chars().take(120).collect::<String>()));
                }
            }
        }
    }
    None
}

pub fn run(tier: Tier, seed: u64) -> MonOut {
    let saved = silence_stderr();
    let n = tier.n(160, 3_200);
    let base = Rng::new(seed);
    let mut rep = Report::new();
    for i in 0..n {
        let mut rng = base.fork(i as u64 + 1);
        case(tier, i, &mut rng, &mut rep);
    }
    crate::appgen::restore_stderr(saved);
    MonOut {
        report: rep,
        rule: "applications with response_output_policy = file (newline-delimited JSON, or CSV with a random mapping of 2..12 columns built from paths, sums and optionals over numeric / string scalars, sorted or declaration-order header), flush rate 1..50 or default, both persistence policies, occasionally a combined sink with a second file, the policy given in TOML or per run; batches of 1..150 (thorough 600) object queries (valid, unreachable, terminated, grid-search, malformed), 35 % of the JSON cases with route and tree in json format so that a record is tens of kilobytes; 1..3 runs appending to the same file with parallelism 1,2,3,4,8,16,32, shuffled order and seeded delays at QueryStart/QueryEnd/BeforeWrite; in 30 % of the cases whose policy sits in the TOML a second application (routee_compass::app::cli::run::command_line_runner on the same TOML: a JSON array, or newline-delimited JSON in chunks of 1, 2, 3, 7, 16, n, n+5 with occasional unparseable lines) appends the batch once more and its part of the file is judged under the header already there. oracle: the file parsed by serde_json / the csv crate vs the same batch run without any sink. non-trivial = batch of >= 5; distinct by (format, configuration, batch size, runs)".into(),
        assumptions: vec![
            "the reference for 'the response that was produced' is the same batch run without a sink (parallelism 1); volatile timing fields are ignored and state vectors compared as multisets".into(),
            "input-plugin failures never reach the sink by design (they are appended to the returned vector), so rows are expected for all other responses".into(),
            "lock discipline itself is not asserted: SinkLocked events only supply the evidence of writer switches; the verdict is the file and the returned responses".into(),
        ],
        floor: 8,
        exhaustive: false,
        explanation: "sampled sink configurations, batches and schedules".into(),
    }
}

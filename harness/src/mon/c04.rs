//! C04 — routes and trees never use an edge or turn the query is forbidden to use.
use super::c01::gen_alg;
use super::{MonOut, Tier};
use crate::hooks::{Caught, Ev};
use crate::oracle::route::{route_ids, travel_order, Od};
use crate::par::par_cases;
use crate::report::Report;
use crate::restrict::{gen_edge_local, query_with};
use crate::rng::{hash_str, Rng};
use crate::run::{run_search, step_budget, Alg};
use crate::searchcase::{gen_vertex_od, had_reopen};
use crate::world::{gen_world, FrontierCfg, WorldParams};
use serde_json::json;
use std::collections::HashSet;
use crate::restrict::{oracle_allowed, oracle_restricted_turns};
use crate::worldjson::QueryCase;
use routee_compass_core::algorithm::search::search_instance::SearchInstance;

fn kind_of(cfg: &FrontierCfg) -> String {
    match cfg {
        FrontierCfg::None => "none".into(),
        FrontierCfg::RoadClass { .. } => "road_class".into(),
        FrontierCfg::Vehicle { .. } => "vehicle".into(),
        FrontierCfg::Turn { .. } => "turn".into(),
        FrontierCfg::Combined(v) => format!("combined({})", v.iter().map(kind_of).collect::<Vec<_>>().join(",")),
    }
}

/// which innermost model forbids edge e (for the message)
fn refusing(cfg: &FrontierCfg, query: &serde_json::Value, ne: usize, e: usize) -> Vec<String> {
    match cfg {
        FrontierCfg::Combined(v) => v.iter().flat_map(|c| refusing(c, query, ne, e)).collect(),
        other => match oracle_allowed(other, query, ne) {
            Some(a) if !a[e] => vec![kind_of(other)],
            _ => vec![],
        },
    }
}

pub fn check_query(qc: &QueryCase, si: &SearchInstance, rep: &mut Report) {
    rep.eval();
    let world = &qc.world;
    let net = &world.net;
    let (alg, od, reverse) = (&qc.alg, qc.od, qc.reverse);
    let mut allowed = match oracle_allowed(&world.frontier, &qc.query, net.ne()) {
        Some(a) => a,
        None => {
            rep.inconclusive("the oracle could not evaluate the restriction configuration".into());
            return;
        }
    };
    for e in &qc.cut {
        allowed[*e] = false;
    }
    let turn_pairs = oracle_restricted_turns(&world.frontier);
    let restricted: HashSet<(usize, usize)> = turn_pairs.iter().copied().collect();
    let kind = format!("{}{}", kind_of(&world.frontier), if qc.cut.is_empty() { "" } else { "+cut" });
    let n_forbidden = allowed.iter().filter(|a| !**a).count();
    let (out, ctx) = run_search(alg, si, od, reverse, &qc.query, step_budget(net.nv(), net.ne(), qc.k()), true);
    let res = match out {
        Err(Caught::Budget(_)) => {
            rep.count("budget_exceeded_(decided_by_C13)", 1);
            return;
        }
        Err(Caught::Panic(_)) => {
            rep.count("panics_(decided_by_C12/C13)", 1);
            return;
        }
        Ok(Err(_)) => {
            rep.count("search_errors", 1);
            return;
        }
        Ok(Ok(r)) => r,
    };
    let reopened = had_reopen(&ctx.events);
    let (orient, dirn) = (qc.orient(), qc.dirn());
    let replay = || {
        let mut j = qc.to_json();
        j["allowed_edges_oracle"] = json!(allowed);
        j
    };
    // hook invariant: no edge relaxed after the frontier rejected it in the same expansion
    {
        let mut rejected: HashSet<usize> = HashSet::new();
        for ev in &ctx.events {
            match ev {
                Ev::Pop { .. } | Ev::SearchStart { .. } => rejected.clear(),
                Ev::FrontierReject { edge } => {
                    rejected.insert(*edge);
                }
                Ev::Relax { edge, .. } => {
                    if rejected.contains(edge) {
                        rep.violate("C04|run_a_star|relaxed-after-frontier-reject", format!("edge {edge} was traversed in the expansion in which the frontier model rejected it"), replay);
                        break;
                    }
                }
                _ => {}
            }
        }
    }
    let mut forbidden_use = false;
    // F1/F2/F3/F5 routes
    for (ri, route) in res.routes.iter().enumerate() {
        let ids = travel_order(&route_ids(route), reverse);
        rep.count("routes_checked", 1);
        for (j, e) in ids.iter().enumerate() {
            let exempt = match od {
                Od::Edge(oe, de) => (j == 0 && *e == oe) || (j + 1 == ids.len() && Some(*e) == de),
                _ => false,
            };
            if *e < allowed.len() && !allowed[*e] && !exempt {
                let which = if qc.cut.contains(e) { "cut-edge".to_string() } else { refusing(&world.frontier, &qc.query, net.ne(), *e).join("+") };
                rep.violate(
                    &format!("C04|{}|{orient}|{dirn}|route-uses-forbidden-edge|{which}", alg.family()),
                    format!("route {ri} {ids:?} uses edge {e} which the oracle forbids ({which})"),
                    replay,
                );
                forbidden_use = true;
                break;
            }
        }
        // F4 restricted turns, including the junctions made by wrappers and splicing
        for (j, w) in ids.windows(2).enumerate() {
            if restricted.contains(&(w[0], w[1])) && net.edges[w[0]].dst == net.edges[w[1]].src {
                let site = if matches!(alg, Alg::Yens { .. }) && ri > 0 {
                    "yens-alternative".to_string()
                } else if matches!(alg, Alg::SingleVia { .. }) && ri > 0 {
                    "single_via-alternative".to_string()
                } else if reverse {
                    "reverse-search".to_string()
                } else if matches!(od, Od::Edge(oe, de) if (j == 0 && w[0] == oe) || (j + 2 == ids.len() && Some(w[1]) == de)) {
                    "edge-oriented-junction".to_string()
                } else if reopened {
                    "after-reopened-vertex".to_string()
                } else {
                    format!("{}|{orient}|forward", alg.family())
                };
                rep.violate(&format!("C04|restricted-turn|{site}"), format!("route {ri} {ids:?} contains the restricted turn {} -> {}", w[0], w[1]), replay);
                forbidden_use = true;
                break;
            }
        }
    }
    // F1/F2/F3 trees
    for (ti, tree) in res.trees.iter().enumerate() {
        rep.count("trees_checked", 1);
        for (v, b) in tree.iter() {
            let e = b.edge_traversal.edge_id.0;
            let exempt = match od {
                Od::Edge(oe, de) => e == oe || Some(e) == de,
                _ => false,
            };
            if e < allowed.len() && !allowed[e] && !exempt {
                let which = if qc.cut.contains(&e) { "cut-edge".to_string() } else { refusing(&world.frontier, &qc.query, net.ne(), e).join("+") };
                rep.violate(
                    &format!("C04|{}|{orient}|{dirn}|tree-uses-forbidden-edge|{which}", alg.family()),
                    format!("tree {ti} entry {} uses edge {e} which the oracle forbids ({which})", v.0),
                    replay,
                );
                forbidden_use = true;
                break;
            }
        }
    }
    if !forbidden_use && (n_forbidden > 0 || !restricted.is_empty()) && (res.routes.iter().any(|x| x.len() >= 2) || res.trees.iter().any(|t| t.len() >= 3)) {
        rep.nontrivial(hash_str(&format!("{}|{}|{:?}|{reverse}|{kind}|{:?}", net.ne(), alg.family(), od, res.routes.first().map(|x| route_ids(x)))));
        rep.sample(|| json!({"algorithm": alg.name(), "orientation": orient, "direction": dirn, "restriction": kind, "forbidden_edges": n_forbidden, "restricted_turns": restricted.len(), "routes": res.routes.iter().map(|x| route_ids(x)).collect::<Vec<_>>(), "frontier_rejections_observed": ctx.events.iter().filter(|e| matches!(e, Ev::FrontierReject{..})).count()}));
    }
    rep.count("frontier_rejections_observed", ctx.events.iter().filter(|e| matches!(e, Ev::FrontierReject { .. })).count() as u64);
    rep.seen("configurations", format!("{}|{orient}|{dirn}", alg.family()));
    rep.seen("restriction_kinds", kind);
}

/// add one or two turn-restriction models to an edge-local configuration (a flat combined model when there is more than one)
fn with_turn_models(rng: &mut Rng, cfg: FrontierCfg, tparts: Vec<FrontierCfg>) -> FrontierCfg {
    let mut v = match cfg {
        FrontierCfg::None => vec![],
        FrontierCfg::Combined(v) => v,
        other => vec![other],
    };
    for t in tparts {
        v.insert(rng.below(v.len() + 1), t);
    }
    if v.len() == 1 {
        v.remove(0)
    } else {
        FrontierCfg::Combined(v)
    }
}

fn case(tier: Tier, rng: &mut Rng, rep: &mut Report) {
    let mut p = WorldParams::default();
    p.net.max_v = if tier.thorough { 40 } else { 20 };
    p.net.metric = rng.chance(0.6);
    p.net.p_blocks = 0.1;
    p.allow_turn_delay = rng.chance(0.3);
    let mut world = gen_world(rng, &p);
    let net = world.net.clone();
    let mut r = gen_edge_local(rng, &net);
    // restricted turns: a share of the consecutive edge pairs
    if rng.chance(0.6) {
        let mut turn_pairs: Vec<(usize, usize)> = vec![];
        let share = rng.frange(0.05, 0.4);
        for a in 0..net.ne() {
            for b in 0..net.ne() {
                if a != b && net.edges[a].dst == net.edges[b].src && rng.chance(share) {
                    turn_pairs.push((a, b));
                }
            }
        }
        // a few listed pairs that are not consecutive at all (must be harmless)
        for _ in 0..rng.urange(0, 3) {
            turn_pairs.push((rng.below(net.ne()), rng.below(net.ne())));
        }
        // sometimes the listed turns come in two files (two turn models inside the combined one)
        let mut tparts = vec![];
        if rng.chance(0.2) && turn_pairs.len() >= 2 {
            let cut = rng.urange(1, turn_pairs.len() - 1);
            let second = turn_pairs.split_off(cut);
            tparts.push(FrontierCfg::Turn { pairs: turn_pairs });
            tparts.push(FrontierCfg::Turn { pairs: second });
        } else {
            tparts.push(FrontierCfg::Turn { pairs: turn_pairs });
        }
        r.cfg = with_turn_models(rng, r.cfg, tparts);
    }
    world.frontier = r.cfg.clone();
    let query = query_with(&r.query_fields);
    let mut cut: Vec<usize> = vec![];
    if rng.chance(0.25) {
        for e in 0..net.ne() {
            if rng.chance(0.12) {
                cut.push(e);
            }
        }
    }
    // self-check of the oracle: evaluation from the raw configuration equals the generator's own mask
    match oracle_allowed(&world.frontier, &query, net.ne()) {
        Some(a) if a == r.allowed => {}
        other => {
            rep.inconclusive(format!("oracle self-check failed: evaluated mask {:?} differs from the generator's {:?}", other, r.allowed));
            return;
        }
    }
    let mut qc = QueryCase { world, cut, query, alg: Alg::Dijkstra, od: Od::Vertex(0, None), reverse: false, via_files: rng.chance(0.2) };
    let si = match qc.build() {
        Ok(s) => s,
        Err(e) => {
            rep.violate("C04|frontier-build|error", format!("a well-formed restriction configuration was refused: {e}"), || qc.to_json());
            return;
        }
    };
    let mut allowed = r.allowed.clone();
    for e in &qc.cut {
        allowed[*e] = false;
    }
    for _ in 0..8 {
        qc.alg = gen_alg(rng, 0.3);
        let edge_oriented = rng.chance(0.3);
        let with_dest = qc.alg.is_ksp() || rng.chance(0.85);
        qc.od = if edge_oriented {
            // origin and destination edges are drawn from the permitted set
            let ok: Vec<usize> = (0..net.ne()).filter(|e| allowed[*e]).collect();
            if ok.len() < 2 {
                continue;
            }
            let o = *rng.pick(&ok);
            let d = *rng.pick(&ok);
            if o == d {
                continue;
            }
            Od::Edge(o, if with_dest { Some(d) } else { None })
        } else {
            gen_vertex_od(rng, &net, with_dest)
        };
        qc.reverse = !edge_oriented && !qc.alg.is_ksp() && rng.chance(0.4);
        check_query(&qc, &si, rep);
    }
}


/// application-level slice: the restriction files are read by the real builders from the [frontier] section of the
/// TOML and the query parameters (road_classes, vehicle_parameters) travel through CompassApp::run. only plain forward
/// vertex-oriented searches with an admissible heuristic: the variants without a listed finding
fn app_case(case_no: usize, rng: &mut Rng, rep: &mut Report) {
    use crate::appgen::{build_app, AppSpec, OutputPlugin};
    use crate::hooks::catch;
    use crate::oracle::graph::reachable;
    let mut p = WorldParams::default();
    p.net.min_v = 5;
    p.net.max_v = 22;
    p.net.metric = true;
    p.net.p_blocks = 0.1;
    p.allow_turn_delay = false;
    p.surcharges = false;
    let mut world = gen_world(rng, &p);
    for (_, r) in world.cost.vehicle_rates.iter_mut() {
        if let routee_compass_core::model::cost::vehicle::vehicle_cost_rate::VehicleCostRate::Combined(_) = r {
            *r = routee_compass_core::model::cost::vehicle::vehicle_cost_rate::VehicleCostRate::Factor { factor: 2.5 };
        }
    }
    let net = world.net.clone();
    let mut r = gen_edge_local(rng, &net);
    let mut has_turns = false;
    if rng.chance(0.5) {
        let mut turn_pairs: Vec<(usize, usize)> = vec![];
        let share = rng.frange(0.05, 0.4);
        for a in 0..net.ne() {
            for b in 0..net.ne() {
                if a != b && net.edges[a].dst == net.edges[b].src && rng.chance(share) {
                    turn_pairs.push((a, b));
                }
            }
        }
        if !turn_pairs.is_empty() {
            has_turns = true;
            let mut tparts = vec![];
            if rng.chance(0.3) && turn_pairs.len() >= 2 {
                let cut = rng.urange(1, turn_pairs.len() - 1);
                let second = turn_pairs.split_off(cut);
                tparts.push(FrontierCfg::Turn { pairs: turn_pairs });
                tparts.push(FrontierCfg::Turn { pairs: second });
            } else {
                tparts.push(FrontierCfg::Turn { pairs: turn_pairs });
            }
            r.cfg = with_turn_models(rng, r.cfg, tparts);
        }
    }
    world.frontier = r.cfg.clone();
    let kind = kind_of(&world.frontier);
    let alg = rng.pick(&[Alg::Dijkstra, Alg::AStar(None), Alg::AStar(Some(1.0)), Alg::AStar(Some(0.0))]).clone();
    let mut spec = AppSpec::basic(world.clone(), alg.clone());
    spec.parallelism = rng.urange(1, 4);
    spec.output_plugins = vec![OutputPlugin::Summary, OutputPlugin::Traversal { route: Some("edge_id".into()), tree: Some("edge_id".into()) }];
    let built = match catch(|| build_app(&spec, "c04")) {
        Ok(Ok(b)) => b,
        Ok(Err(e)) => {
            rep.violate(&format!("C04|app|CompassApp::try_from|load-error|{kind}"), format!("a well-formed [frontier] section was refused: {}", e.lines().next().unwrap_or("")), || json!({"toml": e}));
            return;
        }
        Err(pm) => {
            rep.violate(&format!("C04|app|CompassApp::try_from|{}", crate::hooks::panic_sig(&pm)), pm, || json!({}));
            return;
        }
    };
    let restricted: HashSet<(usize, usize)> = oracle_restricted_turns(&world.frontier).into_iter().collect();
    let mut queries = vec![];
    let mut ods = vec![];
    for i in 0..6 {
        let with_dest = rng.chance(0.85);
        let (o, d) = match gen_vertex_od(rng, &net, with_dest) {
            Od::Vertex(o, d) if Some(o) != d => (o, d),
            _ => continue,
        };
        let mut q = r.query_fields.clone();
        q.insert("qid".into(), json!(format!("f{case_no}q{i}")));
        q.insert("origin_vertex".into(), json!(o));
        if let Some(d) = d {
            q.insert("destination_vertex".into(), json!(d));
        }
        queries.push(serde_json::Value::Object(q));
        ods.push((o, d));
    }
    if queries.is_empty() {
        return;
    }
    let responses = match catch(|| built.app.run(queries.clone(), None)) {
        Ok(Ok(v)) => v,
        Ok(Err(e)) => {
            rep.violate("C04|app|run-returns-err", format!("run() failed: {e}"), || json!({"toml": built.toml, "batch": queries}));
            return;
        }
        Err(pm) => {
            rep.violate(&format!("C04|app|{}", crate::hooks::panic_sig(&pm)), pm, || json!({"toml": built.toml, "batch": queries}));
            return;
        }
    };
    for (q, (o, d)) in queries.iter().zip(&ods) {
        rep.eval();
        let qid = q["qid"].as_str().unwrap_or("");
        let resp = match responses.iter().find(|x| x["request"]["qid"].as_str() == Some(qid)) {
            Some(x) => x,
            None => continue,
        };
        let replay = || json!({"toml": built.toml, "query": q, "frontier": crate::world::frontier_json(&world.frontier), "allowed_edges": r.allowed, "response_route": resp["route"]["path"], "response_error": resp.get("error")});
        if let Some(e) = resp.get("error") {
            let text = e.to_string();
            // without turn restrictions reachability over the permitted edges is path independent
            if let (Some(d), false, true) = (d, has_turns, text.contains("no path")) {
                if reachable(&net, &r.allowed, *o, true)[*d] {
                    rep.violate(&format!("C04|app|no-path-although-a-permitted-path-exists|{kind}"), format!("vertex {d} is reachable from {o} over permitted edges, the response says {}", text.chars().take(200).collect::<String>()), replay);
                    continue;
                }
            }
            if !text.contains("no path") {
                rep.count("app_queries_refused_for_other_reasons", 1);
            }
            rep.count("app_error_responses", 1);
            continue;
        }
        let ids: Vec<usize> = resp["route"]["path"].as_array().map(|a| a.iter().filter_map(|x| x.as_u64().map(|v| v as usize)).collect()).unwrap_or_default();
        let tree: Vec<usize> = resp["tree"].as_array().map(|a| a.iter().filter_map(|x| x.as_u64().map(|v| v as usize)).collect()).unwrap_or_default();
        if let Some(e) = ids.iter().find(|e| **e >= net.ne() || !r.allowed[**e]) {
            let why = if *e < net.ne() { refusing(&world.frontier, q, net.ne(), *e).join("+") } else { "unknown-edge".into() };
            rep.violate(&format!("C04|app|route-uses-forbidden-edge|{why}"), format!("F1/F2 route {ids:?} uses edge {e} which the query may not use ({why})"), replay);
            continue;
        }
        if let Some(w) = ids.windows(2).find(|w| restricted.contains(&(w[0], w[1]))) {
            rep.violate("C04|app|restricted-turn|plain-forward-search", format!("F4 route {ids:?} takes the listed turn {} -> {}", w[0], w[1]), replay);
            continue;
        }
        if let Some(e) = tree.iter().find(|e| **e >= net.ne() || !r.allowed[**e]) {
            let why = if *e < net.ne() { refusing(&world.frontier, q, net.ne(), *e).join("+") } else { "unknown-edge".into() };
            rep.violate(&format!("C04|app|tree-uses-forbidden-edge|{why}"), format!("F1/F2 the tree uses edge {e} which the query may not use ({why})"), replay);
            continue;
        }
        rep.count("app_routes_and_trees_checked", 1);
        rep.count("app_tree_edges_checked", tree.len() as u64);
        rep.seen("app_frontier_kinds", kind.clone());
        // non-trivial: some edge is forbidden and the unrestricted network offers it on a path from the origin
        let free = vec![true; net.ne()];
        let reach_free = reachable(&net, &free, *o, true);
        if (0..net.ne()).any(|e| !r.allowed[e] && reach_free[net.edges[e].src]) || (has_turns && ids.len() >= 2) {
            rep.nontrivial(hash_str(&format!("app|{}|{kind}|{o}|{d:?}|{ids:?}", net.ne())));
            rep.sample(|| json!({"level": "application", "frontier": kind, "query": q, "route": ids, "tree_edges": tree.len(), "forbidden_edges": r.allowed.iter().filter(|a| !**a).count(), "restricted_turns": restricted.len()}));
        }
    }
}

pub fn run(tier: Tier, seed: u64) -> MonOut {
    let n = tier.n(30_000, 1_000_000);
    // one case in 40 goes through the application: restriction files read by the real builders, parameters from the query
    let mut rep = par_cases(seed, n, |i, rng, rep| if i % 40 == 39 { app_case(i, rng, rep) } else { case(tier, rng, rep) });
    let mut d = Report::new();
    super::c01::run_directed("C04", &mut d, check_query);
    rep.merge(d);
    MonOut {
        report: rep,
        rule: "generated networks with the real frontier models built through their services from a query: road classes (numeric or mapped names), vehicle restrictions (mixed units, limits >= 1 % from the vehicle value or exactly equal in equal units), restricted-turn lists (5..40 % of the consecutive edge pairs plus non-consecutive decoys), their combinations in either order, optionally wrapped in an edge cut set; 8 queries per network over all algorithms, vertex/edge orientation, forward/reverse. oracle = generator's raw restriction inputs: every route and tree edge must be permitted, no two consecutive route edges (travel order) may form a listed turn. application-level slice (1 case in 40): the same restriction inputs written to road-class / vehicle-restriction / turn-restriction files and a [frontier] section, read by the real builders, queries with road_classes / vehicle_parameters through CompassApp::run (plain forward vertex searches, admissible heuristic), route and tree in edge_id format checked against the same masks, plus 'no path' only when no permitted path exists (configurations without turn restrictions). non-trivial = a restriction exists and the result has a route of >= 2 edges or a tree of >= 3 entries; distinct by (network, algorithm, od, direction, restriction kind, route)".into(),
        assumptions: vec![
            "the origin and destination edges of edge-oriented queries are drawn from the permitted set and are exempt from the per-edge clause (the wrappers never consult the frontier for them)".into(),
            "vehicle comparisons are decided with an independent SI table; boundary cases within 1 % are not generated except exact equality in equal units".into(),
            "restricted-turn violations are classified by the site that produced the junction (plain forward search, reverse search, edge-oriented junction, k-shortest-path splice, re-opened vertex)".into(),
        ],
        floor: 300,
        exhaustive: false,
        explanation: "sampled networks/restrictions; results compared with the raw restriction inputs".into(),
    }
}

//! C16 — map matching picks the nearest admissible element and honours the tolerance.
use super::{MonOut, Tier};
use crate::appgen::{fresh_dir, remove_dir, silence_stderr};
use crate::gen::net::hav_m_f64;
use crate::hooks::{catch, panic_sig};
use crate::oracle::units as U;
use crate::par::par_cases;
use crate::report::Report;
use crate::restrict::CLASS_NAMES;
use crate::rng::{hash_str, Rng};
use crate::world::FrontierCfg;
use geo::{Centroid, LineString};
use routee_compass::app::compass::config::frontier_model::road_class::road_class_parser::RoadClassParser;
use routee_compass::plugin::input::default::edge_rtree::edge_rtree_input_plugin::EdgeRtreeInputPlugin;
use routee_compass::plugin::input::default::vertex_rtree::plugin::RTreePlugin;
use routee_compass::plugin::input::input_plugin::InputPlugin;
use routee_compass_core::model::unit::Distance;
use serde_json::{json, Map, Value};
use std::sync::Arc;

const UNIT_NAMES: [&str; 5] = ["meters", "kilometers", "miles", "inches", "feet"];

fn d2(a: (f32, f32), b: (f32, f32)) -> f32 {
    let dx = a.0 - b.0;
    let dy = a.1 - b.1;
    dx * dx + dy * dy
}

fn gen_points(rng: &mut Rng, n: usize) -> Vec<(f32, f32)> {
    let cx = rng.frange(-120.0, -70.0) as f32;
    let cy = rng.frange(-50.0, 60.0) as f32;
    let span = rng.frange(0.01, 1.0) as f32;
    let style = rng.below(4);
    let mut pts: Vec<(f32, f32)> = (0..n)
        .map(|i| match style {
            0 => (cx + rng.f64() as f32 * span, cy + rng.f64() as f32 * span),
            1 => (cx + span * (i as f32) / (n as f32), cy), // collinear
            2 => {
                // clusters
                let c = (i % 3) as f32;
                (cx + c * span / 3.0 + rng.f64() as f32 * span * 0.01, cy + c * span / 5.0 + rng.f64() as f32 * span * 0.01)
            }
            _ => {
                let side = (n as f64).sqrt().ceil() as usize;
                (cx + span * ((i % side) as f32) / side as f32, cy + span * ((i / side) as f32) / side as f32)
            }
        })
        .collect();
    // duplicates
    if n >= 3 && rng.chance(0.3) {
        for _ in 0..rng.urange(1, 3) {
            let a = rng.below(n);
            let b = rng.below(n);
            pts[a] = pts[b];
        }
    }
    pts
}

fn gen_query_point(rng: &mut Rng, pts: &[(f32, f32)]) -> (f32, f32) {
    let p = pts[rng.below(pts.len())];
    match rng.below(6) {
        0 => p,                                                                                          // exactly on a candidate
        1 => (p.0 + rng.frange(-1e-4, 1e-4) as f32, p.1 + rng.frange(-1e-4, 1e-4) as f32),               // metres away
        2 => (p.0 + rng.frange(-0.05, 0.05) as f32, p.1 + rng.frange(-0.05, 0.05) as f32),               // kilometres away
        3 => (p.0 + rng.frange(-3.0, 3.0) as f32, (p.1 + rng.frange(-3.0, 3.0) as f32).clamp(-89.0, 89.0)), // far outside
        4 => (rng.frange(-179.0, 179.0) as f32, rng.frange(-89.0, 89.0) as f32),                          // anywhere on the globe
        _ => {
            let q = pts[rng.below(pts.len())];
            ((p.0 + q.0) / 2.0, (p.1 + q.1) / 2.0)
        }
    }
}

fn extra_fields(rng: &mut Rng) -> Map<String, Value> {
    let mut m = Map::new();
    for i in 0..rng.urange(0, 4) {
        m.insert(format!("extra{i}"), match rng.below(4) {
            0 => json!(i),
            1 => json!({"nested": [1, 2, {"x": i}]}),
            2 => json!("text"),
            _ => Value::Null,
        });
    }
    m
}

/// tolerance setting: (value in unit, unit name option) placed relative to a true distance in metres
fn place_tolerance(rng: &mut Rng, d_m: f64) -> (Option<(f64, Option<usize>)>, &'static str) {
    if rng.chance(0.25) {
        return (None, "none");
    }
    let (factor, label) = *rng.pick(&[(2.0, "d=0.5tol"), (1.0 / 0.99, "d=0.99tol"), (1.0 / 1.01, "d=1.01tol"), (0.5, "d=2tol"), (10.0, "d=0.1tol"), (0.1, "d=10tol")]);
    let tol_m = (d_m.max(1.0)) * factor;
    let unit = if rng.chance(0.3) { None } else { Some(rng.below(5)) };
    let val = match unit {
        None => tol_m,
        Some(u) => tol_m / U::dist_si(U::DISTANCE_UNITS[u]),
    };
    (Some((val, unit)), label)
}

/// Some(true) must match, Some(false) must be refused, None = inside the don't-care band
fn verdict(d_m: f64, tol_m: f64) -> Option<bool> {
    let band = 0.01 * tol_m + 3.0;
    if d_m < tol_m - band {
        Some(true)
    } else if d_m > tol_m + band {
        Some(false)
    } else {
        None
    }
}

fn vertex_case(rng: &mut Rng, rep: &mut Report, big: bool) {
    let n = if big { rng.urange(200, 2000) } else { rng.urange(1, 60) };
    let pts = gen_points(rng, n);
    // a reference query to place the tolerance
    let probe = gen_query_point(rng, &pts);
    let dprobe = pts.iter().map(|p| d2(*p, probe)).fold(f32::INFINITY, f32::min);
    let nearest_probe = pts.iter().find(|p| d2(**p, probe) == dprobe).copied().unwrap_or(pts[0]);
    let d_m = hav_m_f64((probe.0 as f64, probe.1 as f64), (nearest_probe.0 as f64, nearest_probe.1 as f64));
    let (tol, tol_label) = place_tolerance(rng, d_m);
    let dir = fresh_dir("c16v");
    let vp = dir.join("vertices.csv");
    let mut s = String::from("vertex_id,x,y\n");
    for (i, (x, y)) in pts.iter().enumerate() {
        s.push_str(&format!("{i},{x:?},{y:?}\n"));
    }
    if std::fs::write(&vp, s).is_err() {
        rep.inconclusive("cannot write vertex file".into());
        remove_dir(&dir);
        return;
    }
    // half of the matchers are built from configuration parameters by the real builder (where an omitted unit has to mean
    // the documented default, meters), the others directly
    let via_builder = rng.chance(0.5);
    let plugin: Result<Result<Arc<dyn InputPlugin>, String>, String> = if via_builder {
        use routee_compass::app::compass::config::builders::InputPluginBuilder;
        use routee_compass::plugin::input::default::vertex_rtree::builder::VertexRTreeBuilder;
        let mut params = json!({"type": "vertex_rtree", "vertices_input_file": vp.to_string_lossy()});
        if let Some((t, u)) = tol {
            params["distance_tolerance"] = json!(t);
            if let Some(u) = u {
                params["distance_unit"] = json!(UNIT_NAMES[u]);
            }
        }
        catch(|| VertexRTreeBuilder {}.build(&params).map_err(|e| e.to_string()))
    } else {
        catch(|| RTreePlugin::new(&vp, tol.map(|t| Distance::new(t.0)), tol.and_then(|t| t.1).map(|u| U::DISTANCE_UNITS[u])).map(|p| Arc::new(p) as Arc<dyn InputPlugin>).map_err(|e| e.to_string()))
    };
    remove_dir(&dir);
    let settings = json!({"vertices": if n <= 60 { json!(pts) } else { json!(n) }, "tolerance": tol.map(|t| json!([t.0, t.1.map(|u| UNIT_NAMES[u])]))});
    let plugin = match plugin {
        Ok(Ok(p)) => p,
        Ok(Err(e)) => {
            rep.violate("C16|RTreePlugin::new|error", format!("well-formed vertex file refused: {e}"), || settings.clone());
            return;
        }
        Err(pm) => {
            rep.violate(&format!("C16|RTreePlugin::new|{}", panic_sig(&pm)), pm, || settings.clone());
            return;
        }
    };
    let tol_m = tol.map(|(v, u)| v * u.map(|u| U::dist_si(U::DISTANCE_UNITS[u])).unwrap_or(1.0));
    for qi in 0..(if big { 30 } else { 12 }) {
        rep.eval();
        let o = if qi == 0 { probe } else { gen_query_point(rng, &pts) };
        let with_dest = rng.chance(0.7);
        let d = gen_query_point(rng, &pts);
        let extras = extra_fields(rng);
        let mut q = Map::new();
        q.insert("origin_x".into(), json!(o.0));
        q.insert("origin_y".into(), json!(o.1));
        if with_dest {
            q.insert("destination_x".into(), json!(d.0));
            q.insert("destination_y".into(), json!(d.1));
        }
        for (k, v) in &extras {
            q.insert(k.clone(), v.clone());
        }
        // a query may already carry (stale) matches, e.g. a re-submitted request with edited coordinates: the
        // matcher's result replaces them
        if rng.chance(0.2) {
            q.insert("origin_vertex".into(), json!(rng.below(n.max(1) + 3)));
            if rng.chance(0.5) {
                q.insert("destination_vertex".into(), json!(rng.below(n.max(1) + 3)));
            }
            rep.count("queries_with_stale_matches", 1);
        }
        let before = Value::Object(q);
        let mut after = before.clone();
        let replay = || {
            let mut r = settings.clone();
            r["query"] = before.clone();
            r
        };
        let res = match catch(|| plugin.process(&mut after)) {
            Ok(r) => r,
            Err(pm) => {
                rep.violate(&format!("C16|RTreePlugin::process|{}", panic_sig(&pm)), pm, replay);
                continue;
            }
        };
        // expectations per coordinate
        let mut expect_ok = Some(true);
        let mut expectations = vec![];
        for (label, c, present) in [("origin", o, true), ("destination", d, with_dest)] {
            if !present {
                continue;
            }
            let dmin = pts.iter().map(|p| d2(*p, c)).fold(f32::INFINITY, f32::min);
            let nearest: Vec<usize> = (0..n).filter(|i| d2(pts[*i], c) == dmin).collect();
            let dist_m = hav_m_f64((c.0 as f64, c.1 as f64), (pts[nearest[0]].0 as f64, pts[nearest[0]].1 as f64));
            // candidates that tie under the plugin's measure can differ in great-circle distance (a degree of
            // longitude is shorter than a degree of latitude): the verdict is only defined when all ties agree
            let v = match tol_m {
                None => Some(true),
                Some(t) => {
                    let vs: Vec<Option<bool>> = nearest.iter().map(|i| verdict(hav_m_f64((c.0 as f64, c.1 as f64), (pts[*i].0 as f64, pts[*i].1 as f64)), t)).collect();
                    if vs.iter().all(|x| *x == vs[0]) { vs[0] } else { None }
                }
            };
            expectations.push((label, nearest, dist_m, v));
            expect_ok = match (expect_ok, v) {
                (Some(false), _) | (_, Some(false)) => Some(false),
                (None, _) | (_, None) => None,
                _ => Some(true),
            };
        }
        match (&res, expect_ok) {
            (Err(e), Some(true)) => {
                rep.violate(&format!("C16|vertex|refused-within-tolerance|{tol_label}"), format!("N2 every coordinate has a candidate within tolerance ({:?}) but matching failed: {e}", expectations.iter().map(|x| x.2).collect::<Vec<_>>()), replay);
                continue;
            }
            (Ok(()), Some(false)) => {
                rep.violate(&format!("C16|vertex|matched-beyond-tolerance|{tol_label}"), format!("N2 a coordinate's nearest vertex is {:?} m away, tolerance {:?} m, but a match was written", expectations.iter().map(|x| x.2).collect::<Vec<_>>(), tol_m), replay);
                continue;
            }
            _ => {}
        }
        if res.is_ok() {
            // N1 nearest under the plugin's measure, N4 destination independent
            for (label, nearest, _, _) in &expectations {
                let field = format!("{label}_vertex");
                match after.get(&field).and_then(|v| v.as_u64()) {
                    Some(v) => {
                        if !nearest.contains(&(v as usize)) {
                            rep.violate(&format!("C16|vertex|not-nearest|{label}"), format!("N1 {label} matched to vertex {v}, the exhaustive scan finds {nearest:?}"), replay);
                        }
                    }
                    None => {
                        rep.violate(&format!("C16|vertex|match-not-written|{label}"), format!("N1 matching succeeded but {field} is absent"), replay);
                    }
                }
            }
            if !with_dest && after.get("destination_vertex").is_some() && before.get("destination_vertex").is_none() {
                rep.violate("C16|vertex|destination-invented", "N4 a destination vertex was written for a query without destination".into(), replay);
            }
        } else {
            // a refused coordinate must not have been matched
            for (label, _, _, v) in &expectations {
                if *v == Some(false) && *label == "origin" && after.get("origin_vertex").is_some() && after.get("origin_vertex") != before.get("origin_vertex") {
                    rep.violate("C16|vertex|match-written-for-refused-coordinate", "N2 the origin is beyond tolerance but origin_vertex was written".into(), replay);
                }
            }
        }
        // N3 all other fields unchanged
        if let (Some(b), Some(a)) = (before.as_object(), after.as_object()) {
            for (k, v) in b.iter().filter(|(k, _)| *k != "origin_vertex" && *k != "destination_vertex") {
                if a.get(k) != Some(v) {
                    rep.violate("C16|vertex|other-field-changed", format!("N3 field {k} changed from {v} to {:?}", a.get(k)), replay);
                    break;
                }
            }
            let added: Vec<&String> = a.keys().filter(|k| !b.contains_key(*k)).collect();
            if added.iter().any(|k| *k != "origin_vertex" && *k != "destination_vertex") {
                rep.violate("C16|vertex|unexpected-field-added", format!("N3 fields added: {added:?}"), replay);
            }
        }
        rep.count("vertex_queries", 1);
        if n >= 3 {
            rep.nontrivial(hash_str(&format!("v{n}|{:?}|{:?}|{tol_label}", o, d)));
        }
        if qi == 1 {
            rep.sample(|| json!({"matcher": "vertex", "candidates": n, "query": before, "result": if res.is_ok() { after.clone() } else { json!({"error": res.as_ref().err().map(|e| e.to_string())}) }, "tolerance_setting": tol_label}));
        }
        rep.seen("tolerance_settings", format!("vertex|{tol_label}"));
    }
}

fn centroid_f32(geom: &[(f32, f32)]) -> (f32, f32) {
    let l: LineString<f32> = LineString::from(geom.to_vec());
    let c = l.centroid().expect("non-empty linestring");
    (c.x(), c.y())
}

fn edge_case(rng: &mut Rng, rep: &mut Report, big: bool) {
    let n = if big { rng.urange(200, 2000) } else { rng.urange(1, 50) };
    let anchors = gen_points(rng, n);
    // geometries: 2..4 points around the anchor
    let geoms: Vec<Vec<(f32, f32)>> = anchors
        .iter()
        .map(|a| {
            let k = rng.urange(2, 4);
            (0..k).map(|j| (a.0 + (j as f32) * rng.frange(1e-4, 5e-3) as f32, a.1 + (j as f32) * rng.frange(-5e-3, 5e-3) as f32)).collect()
        })
        .collect();
    let cents: Vec<(f32, f32)> = geoms.iter().map(|g| centroid_f32(g)).collect();
    let with_classes = rng.chance(0.6);
    let classes: Vec<u8> = (0..n).map(|_| rng.below(5) as u8).collect();
    let with_mapping = with_classes && rng.chance(0.5);
    let with_vehicle = rng.chance(0.4);
    // vehicle rows: reuse the restriction generator on a dummy network of n edges
    let dummy = crate::gen::net::RefNet { coords: vec![(0.0, 0.0); 2], edges: (0..n).map(|_| crate::gen::net::RefEdge { src: 0, dst: 1, len_m: 1.0 }).collect(), motifs: vec![], metric: false };
    let mut vq = Map::new();
    let mut veh_rows: Vec<(usize, String, f64, String)> = vec![];
    let mut veh_allowed = vec![true; n];
    if with_vehicle {
        // draw until a pure vehicle configuration comes out
        for _ in 0..40 {
            let r = crate::restrict::gen_edge_local(rng, &dummy);
            if let FrontierCfg::Vehicle { rows } = &r.cfg {
                veh_rows = rows.clone();
                veh_allowed = r.allowed.clone();
                vq = r.query_fields.clone();
                break;
            }
        }
    }
    let probe = gen_query_point(rng, &cents);
    let dprobe = cents.iter().map(|p| d2(*p, probe)).fold(f32::INFINITY, f32::min);
    let np = cents.iter().find(|p| d2(**p, probe) == dprobe).copied().unwrap_or(cents[0]);
    let d_m = hav_m_f64((probe.0 as f64, probe.1 as f64), (np.0 as f64, np.1 as f64));
    let (tol, tol_label) = place_tolerance(rng, d_m);
    let dir = fresh_dir("c16e");
    let gp = dir.join("geometries.txt");
    let mut s = String::new();
    for g in &geoms {
        s.push_str(&format!("LINESTRING ({})\n", g.iter().map(|(x, y)| format!("{x:?} {y:?}")).collect::<Vec<_>>().join(", ")));
    }
    let cp = dir.join("classes.txt");
    let rp = dir.join("vehicle.csv");
    let mut ok = std::fs::write(&gp, s).is_ok();
    if with_classes {
        ok &= std::fs::write(&cp, classes.iter().map(|c| c.to_string()).collect::<Vec<_>>().join("\n") + "\n").is_ok();
    }
    if with_vehicle {
        let mut t = String::from("edge_id,restriction_name,restriction_value,restriction_unit\n");
        for (e, nm, v, u) in &veh_rows {
            t.push_str(&format!("{e},{nm},{v:?},{u}\n"));
        }
        ok &= std::fs::write(&rp, t).is_ok();
    }
    if !ok {
        rep.inconclusive("cannot write matcher files".into());
        remove_dir(&dir);
        return;
    }
    let parser: RoadClassParser = if with_mapping {
        let m: Map<String, Value> = CLASS_NAMES.iter().enumerate().map(|(i, nm)| (nm.to_string(), json!(i))).collect();
        serde_json::from_value(json!({ "mapping": m })).unwrap_or_default()
    } else {
        RoadClassParser::default()
    };
    // half of the matchers are built from configuration parameters by the real builder, the others directly
    let via_builder = rng.chance(0.5);
    let plugin: Result<Result<Arc<dyn InputPlugin>, String>, String> = if via_builder {
        use routee_compass::app::compass::config::builders::InputPluginBuilder;
        use routee_compass::plugin::input::default::edge_rtree::edge_rtree_input_plugin_builder::EdgeRtreeInputPluginBuilder;
        let mut params = json!({"type": "edge_rtree", "geometry_input_file": gp.to_string_lossy()});
        if with_classes {
            params["road_class_input_file"] = json!(cp.to_string_lossy());
        }
        if with_vehicle {
            params["vehicle_restriction_input_file"] = json!(rp.to_string_lossy());
        }
        if let Some((t, u)) = tol {
            params["distance_tolerance"] = json!(t);
            if let Some(u) = u {
                params["distance_unit"] = json!(UNIT_NAMES[u]);
            }
        }
        if with_mapping {
            let m: Map<String, Value> = CLASS_NAMES.iter().enumerate().map(|(i, nm)| (nm.to_string(), json!(i))).collect();
            params["road_class_parser"] = json!({ "mapping": m });
        }
        let _ = &parser;
        catch(|| EdgeRtreeInputPluginBuilder {}.build(&params).map_err(|e| e.to_string()))
    } else {
        catch(|| {
            EdgeRtreeInputPlugin::new(
                if with_classes { Some(cp.to_string_lossy().to_string()) } else { None },
                if with_vehicle { Some(rp.to_string_lossy().to_string()) } else { None },
                gp.to_string_lossy().to_string(),
                tol.map(|t| Distance::new(t.0)),
                tol.and_then(|t| t.1).map(|u| U::DISTANCE_UNITS[u]),
                parser,
            )
            .map(|p| Arc::new(p) as Arc<dyn InputPlugin>)
            .map_err(|e| e.to_string())
        })
    };
    remove_dir(&dir);
    let settings = json!({"geometries": if n <= 50 { json!(geoms) } else { json!(n) }, "classes": if with_classes && n <= 50 { json!(classes) } else { json!(with_classes) }, "vehicle_rows": if n <= 50 { json!(veh_rows) } else { json!(veh_rows.len()) }, "tolerance": tol.map(|t| json!([t.0, t.1.map(|u| UNIT_NAMES[u])]))});
    let plugin = match plugin {
        Ok(Ok(p)) => p,
        Ok(Err(e)) => {
            rep.violate("C16|EdgeRtreeInputPlugin::new|error", format!("well-formed matcher files refused: {e}"), || settings.clone());
            return;
        }
        Err(pm) => {
            rep.violate(&format!("C16|EdgeRtreeInputPlugin::new|{}", panic_sig(&pm)), pm, || settings.clone());
            return;
        }
    };
    let tol_m = tol.map(|(v, u)| v * u.map(|u| U::dist_si(U::DISTANCE_UNITS[u])).unwrap_or(1.0));
    for qi in 0..(if big { 30 } else { 12 }) {
        rep.eval();
        let o = if qi == 0 { probe } else { gen_query_point(rng, &cents) };
        let with_dest = rng.chance(0.7);
        let d = gen_query_point(rng, &cents);
        let mut q = Map::new();
        q.insert("origin_x".into(), json!(o.0));
        q.insert("origin_y".into(), json!(o.1));
        if with_dest {
            q.insert("destination_x".into(), json!(d.0));
            q.insert("destination_y".into(), json!(d.1));
        }
        // filters
        let mut class_ok = vec![true; n];
        if with_classes && rng.chance(0.7) {
            let set: Vec<u8> = (0..5u8).filter(|_| rng.chance(0.5)).collect();
            if with_mapping && rng.chance(0.5) {
                q.insert("road_classes".into(), json!(set.iter().map(|c| CLASS_NAMES[*c as usize]).collect::<Vec<_>>()));
            } else {
                q.insert("road_classes".into(), json!(set));
            }
            for e in 0..n {
                class_ok[e] = set.contains(&classes[e]);
            }
        }
        let mut vehicle_ok = vec![true; n];
        if with_vehicle && rng.chance(0.7) {
            for (k, v) in &vq {
                q.insert(k.clone(), v.clone());
            }
            vehicle_ok = veh_allowed.clone();
        }
        for (k, v) in extra_fields(rng) {
            q.insert(k, v);
        }
        if rng.chance(0.2) {
            q.insert("origin_edge".into(), json!(rng.below(n.max(1) + 3)));
            if rng.chance(0.5) {
                q.insert("destination_edge".into(), json!(rng.below(n.max(1) + 3)));
            }
            rep.count("queries_with_stale_matches", 1);
        }
        let admissible: Vec<usize> = (0..n).filter(|e| class_ok[*e] && vehicle_ok[*e]).collect();
        let before = Value::Object(q);
        let mut after = before.clone();
        let replay = || {
            let mut r = settings.clone();
            r["query"] = before.clone();
            r
        };
        let res = match catch(|| plugin.process(&mut after)) {
            Ok(r) => r,
            Err(pm) => {
                rep.violate(&format!("C16|EdgeRtreeInputPlugin::process|{}", panic_sig(&pm)), pm, replay);
                continue;
            }
        };
        let mut expect_ok = Some(true);
        let mut expectations = vec![];
        for (label, c, present) in [("origin", o, true), ("destination", d, with_dest)] {
            if !present {
                continue;
            }
            if admissible.is_empty() {
                expectations.push((label, vec![], f64::INFINITY, Some(false)));
                expect_ok = Some(false);
                continue;
            }
            let dmin = admissible.iter().map(|e| d2(cents[*e], c)).fold(f32::INFINITY, f32::min);
            let nearest: Vec<usize> = admissible.iter().copied().filter(|e| d2(cents[*e], c) == dmin).collect();
            let dist_m = hav_m_f64((c.0 as f64, c.1 as f64), (cents[nearest[0]].0 as f64, cents[nearest[0]].1 as f64));
            let mut v = match tol_m {
                None => Some(true),
                Some(t) => {
                    let vs: Vec<Option<bool>> = nearest.iter().map(|i| verdict(hav_m_f64((c.0 as f64, c.1 as f64), (cents[*i].0 as f64, cents[*i].1 as f64)), t)).collect();
                    if vs.iter().all(|x| *x == vs[0]) { vs[0] } else { None }
                }
            };
            // don't-care: a nearer (under the plugin's measure) inadmissible candidate that is itself beyond
            // tolerance may end the scan before the admissible one is reached
            if let (Some(t), Some(true)) = (tol_m, v) {
                let blocks = (0..n).any(|e| !(class_ok[e] && vehicle_ok[e]) && d2(cents[e], c) <= dmin && verdict(hav_m_f64((c.0 as f64, c.1 as f64), (cents[e].0 as f64, cents[e].1 as f64)), t) != Some(true));
                if blocks {
                    v = None;
                }
            }
            expectations.push((label, nearest, dist_m, v));
            expect_ok = match (expect_ok, v) {
                (Some(false), _) | (_, Some(false)) => Some(false),
                (None, _) | (_, None) => None,
                _ => Some(true),
            };
        }
        let filt = format!("{}{}", if before.get("road_classes").is_some() { "class" } else { "" }, if before.get("vehicle_parameters").is_some() { "+vehicle" } else { "" });
        match (&res, expect_ok) {
            (Err(e), Some(true)) => {
                rep.violate(&format!("C16|edge|refused-within-tolerance|{tol_label}"), format!("N2 every coordinate has an admissible candidate within tolerance (distances {:?} m, tolerance {:?} m) but matching failed: {e}", expectations.iter().map(|x| x.2).collect::<Vec<_>>(), tol_m), replay);
                continue;
            }
            (Ok(()), Some(false)) => {
                let why = if admissible.is_empty() { "no-admissible-candidate" } else { "matched-beyond-tolerance" };
                rep.violate(&format!("C16|edge|{why}|{tol_label}"), format!("N2 nearest admissible candidates are {:?} m away, tolerance {:?} m, but a match was written: {}", expectations.iter().map(|x| x.2).collect::<Vec<_>>(), tol_m, after), replay);
                continue;
            }
            _ => {}
        }
        if res.is_ok() {
            for (label, nearest, _, _) in &expectations {
                let field = format!("{label}_edge");
                match after.get(&field).and_then(|v| v.as_u64()) {
                    Some(v) => {
                        let v = v as usize;
                        if v >= n || !(class_ok[v] && vehicle_ok[v]) {
                            rep.violate(&format!("C16|edge|matched-inadmissible|{filt}"), format!("N1 {label} matched to edge {v} which the query's filters exclude"), replay);
                        } else if !nearest.contains(&v) {
                            rep.violate(&format!("C16|edge|not-nearest-admissible|{label}"), format!("N1 {label} matched to edge {v}, the exhaustive scan over admissible edges finds {nearest:?}"), replay);
                        }
                    }
                    None => rep.violate(&format!("C16|edge|match-not-written|{label}"), format!("N1 matching succeeded but {field} is absent"), replay),
                }
            }
            if !with_dest && after.get("destination_edge").is_some() && before.get("destination_edge").is_none() {
                rep.violate("C16|edge|destination-invented", "N4 a destination edge was written for a query without destination".into(), replay);
            }
        } else if (after.get("origin_edge").is_some() && after.get("origin_edge") != before.get("origin_edge")) || (after.get("destination_edge").is_some() && after.get("destination_edge") != before.get("destination_edge")) {
            rep.violate("C16|edge|match-written-on-error", "N2 matching failed but an edge field was written".into(), replay);
        }
        if let (Some(b), Some(a)) = (before.as_object(), after.as_object()) {
            for (k, v) in b.iter().filter(|(k, _)| *k != "origin_edge" && *k != "destination_edge") {
                if a.get(k) != Some(v) {
                    rep.violate("C16|edge|other-field-changed", format!("N3 field {k} changed from {v} to {:?}", a.get(k)), replay);
                    break;
                }
            }
            let added: Vec<&String> = a.keys().filter(|k| !b.contains_key(*k)).collect();
            if added.iter().any(|k| *k != "origin_edge" && *k != "destination_edge") {
                rep.violate("C16|edge|unexpected-field-added", format!("N3 fields added: {added:?}"), replay);
            }
        }
        rep.count("edge_queries", 1);
        if n >= 3 && admissible.len() < n {
            rep.nontrivial(hash_str(&format!("e{n}|{:?}|{:?}|{tol_label}|{filt}", o, d)));
        } else if n >= 3 {
            rep.nontrivial(hash_str(&format!("e{n}|{:?}|{:?}|{tol_label}", o, d)));
        }
        if qi == 1 {
            rep.sample(|| json!({"matcher": "edge", "candidates": n, "admissible": admissible.len(), "query": before, "result": if res.is_ok() { after.clone() } else { json!({"error": res.as_ref().err().map(|e| e.to_string())}) }, "tolerance_setting": tol_label}));
        }
        rep.seen("tolerance_settings", format!("edge|{tol_label}"));
        rep.seen("filters", filt);
    }
}

pub fn run(tier: Tier, seed: u64) -> MonOut {
    let saved = silence_stderr();
    let n = tier.n(12_000, 400_000);
    let rep = par_cases(seed, n, |i, rng, rep| {
        let big = rng.chance(0.08);
        if i % 2 == 0 {
            vertex_case(rng, rep, big)
        } else {
            edge_case(rng, rep, big)
        }
    });
    crate::appgen::restore_stderr(saved);
    MonOut {
        report: rep,
        rule: "generated vertex files and edge geometry files (1..60 candidates, 8 % with 200..2000; uniform, collinear, clustered and gridded layouts with duplicates) loaded by the real RTreePlugin / EdgeRtreeInputPlugin; 12..30 queries per index with coordinates on a candidate, metres away, kilometres away, degrees away, anywhere on the globe, or between two candidates; optional destination; tolerance absent or placed at 0.1x, 0.5x, 0.99x, 1.01x, 2x, 10x the true distance in any distance unit or without unit; road-class filters (numeric / mapped names) and vehicle parameters excluding 0..all candidates; arbitrary extra fields; a fifth of the queries already carry (stale) origin / destination matches that the matcher has to replace. oracle = exhaustive scan under the plugin's own measure (squared coordinate distance to the vertex / to geo's centroid of the geometry, f32) over admissible candidates, and an independent f64 haversine for the tolerance. non-trivial = >= 3 candidates; distinct by (index size, coordinates, tolerance placement, filters)".into(),
        assumptions: vec![
            "geo's Centroid is trusted for the edge matcher's reference point".into(),
            "tolerance verdicts only outside a don't-care band of 1 % + 3 m around the tolerance (boundary and f32 haversine noise)".into(),
            "for the edge matcher, a nearer inadmissible candidate that is itself beyond tolerance makes 'must match' a don't-care (the scan is ordered by the plugin's measure, not by great-circle distance)".into(),
        ],
        floor: 300,
        exhaustive: false,
        explanation: "sampled candidate sets and coordinates; exhaustive scan as reference".into(),
    }
}

//! C12 — no query batch can make the application panic, abort or run without bound.
//!
//! batches run in worker subprocesses under an address-space limit, because allocation failure and
//! stack overflow abort the process and cannot be caught; the parent reads the workers' logs.
use super::{MonOut, Tier};
use crate::appgen::{build_app, silence_stderr, AppSpec, EnergySpec, InputPlugin, OutputPlugin};
use crate::batch::{gen_batch_spec, has_plugin, project, request_superset, valid_query, BatchWorldOpts, Recorder};
use crate::hooks::{catch, panic_sig, set_app_sink, Budget};
use crate::report::Report;
use crate::rng::{hash_str, Rng};
use crate::run::{Alg, KTerm, Sim};
use crate::world::TravCfg;
use routee_compass_core::model::cost::vehicle::vehicle_cost_rate::VehicleCostRate;
use serde_json::{json, Map, Value};
use std::io::Write;
use std::sync::Arc;

const ADDRESS_SPACE_LIMIT: u64 = 6 << 30;

fn gen_spec(rng: &mut Rng) -> AppSpec {
    let mut o = BatchWorldOpts::default();
    o.max_v = 20;
    o.allow_ksp = false;
    let mut spec = gen_batch_spec(rng, &o);
    // algorithms: plain, and both k-shortest-path algorithms
    spec.alg = match rng.below(10) {
        0..=4 => spec.alg.clone(),
        5..=7 => Alg::SingleVia { k: rng.urange(1, 4), under: Box::new(crate::run::gen_plain_alg(rng, false)), sim: crate::run::gen_sim(rng), term: KTerm::Default },
        _ => Alg::Yens { k: rng.urange(1, 4), under: Box::new(crate::run::gen_plain_alg(rng, false)), sim: if rng.chance(0.5) { Sim::AcceptAll } else { crate::run::gen_sim(rng) }, term: KTerm::Default },
    };
    // edge matcher instead of the vertex matcher sometimes
    if rng.chance(0.15) {
        spec.edge_oriented = true;
        spec.input_plugins.retain(|p| !matches!(p, InputPlugin::VertexRtree { .. } | InputPlugin::LoadBalancerHaversine));
        spec.input_plugins.push(InputPlugin::EdgeRtree { tolerance: if rng.chance(0.5) { Some((rng.frange(100.0, 3000.0), Some("meters".into()))) } else { None }, road_classes: false, vehicle: false });
    }
    // energy traversal sometimes
    if matches!(spec.world.trav, TravCfg::Speed { .. }) && rng.chance(0.2) {
        let ne = spec.world.net.ne();
        let vehicle = ["ice", "bev", "phev"][rng.below(3)].to_string();
        spec.energy = Some(EnergySpec { vehicle: vehicle.clone(), grades: (0..ne).map(|_| (rng.frange(-0.1, 0.1) * 100.0).round() / 100.0).collect(), cache: rng.chance(0.5), capacity_kwh: rng.frange(1.0, 60.0), cache_cfg: (64, 3, 5), adjustment: if rng.chance(0.3) { Some(1.2) } else { None } });
        spec.world.access = crate::world::AccessCfg::None;
        let e = if vehicle == "ice" { "energy_liquid" } else { "energy_electric" };
        spec.world.cost.weights.push((e.to_string(), 1.0));
        spec.world.cost.vehicle_rates.push((e.to_string(), VehicleCostRate::Raw));
    }
    // outputs
    let mut outs = vec![OutputPlugin::Summary, OutputPlugin::Traversal { route: Some(["edge_id", "json", "wkt", "geo_json", "wkb"][rng.below(5)].into()), tree: if rng.chance(0.3) { Some("edge_id".into()) } else { None } }];
    if rng.chance(0.3) && !spec.edge_oriented {
        outs.push(OutputPlugin::Uuid);
    }
    spec.output_plugins = outs;
    spec
}

fn energy_fields(spec: &AppSpec, q: &mut Value, rng: &mut Rng) {
    if let (Some(en), Some(o)) = (&spec.energy, q.as_object_mut()) {
        o.insert("model_name".into(), json!(en.vehicle));
        if en.vehicle != "ice" {
            o.insert("starting_soc_percent".into(), json!((rng.frange(0.0, 100.0) * 2.0).round() / 2.0));
        }
    }
}

/// (mutated query, mutation label, must the answer be an error)
fn mutate(rng: &mut Rng, spec: &AppSpec, qid: &str) -> (Value, String, Option<bool>) {
    let mut q = valid_query(rng, spec, qid);
    energy_fields(spec, &mut q, rng);
    let grid = has_plugin(spec, |p| matches!(p, InputPlugin::GridSearch));
    let uses_coords = q.get("origin_x").is_some() && q.get("origin_vertex").is_none() && q.get("origin_edge").is_none();
    let okey = if uses_coords { "origin_x" } else if spec.edge_oriented { "origin_edge" } else { "origin_vertex" };
    let dkey = if uses_coords { "destination_x" } else if spec.edge_oriented { "destination_edge" } else { "destination_vertex" };
    let any_json = |rng: &mut Rng| -> Value {
        match rng.below(9) {
            0 => Value::Null,
            1 => json!(true),
            2 => json!("text"),
            3 => json!(-1),
            4 => json!(2.5),
            5 => json!([]),
            6 => json!({}),
            7 => json!([[1, [2, [3]]]]),
            _ => json!(1e300),
        }
    };
    let n_classes = 26;
    let class = rng.below(n_classes);
    let (label, must): (String, Option<bool>) = match class {
        0 => {
            q.as_object_mut().unwrap().remove(okey);
            ("drop-origin".into(), Some(true))
        }
        1 => {
            q.as_object_mut().unwrap().remove(dkey);
            ("drop-destination".into(), None)
        }
        2 => {
            let v = any_json(rng);
            let ok = !uses_coords && v.as_u64().is_some();
            q[okey] = v;
            ("origin-any-type".into(), if ok { None } else if uses_coords && q[okey].is_number() { None } else { Some(true) })
        }
        3 => {
            q[dkey] = any_json(rng);
            // an id that is present but not an unsigned integer is an ill-typed field (an absent one is a tree search)
            let ill_typed_id = !uses_coords && q[dkey].as_u64().is_none();
            ("destination-any-type".into(), if ill_typed_id { Some(true) } else { None })
        }
        4 => {
            q[okey] = if uses_coords { json!(*rng.pick(&[181.0, -500.0, 1e12])) } else { json!(*rng.pick(&[1_000_000u64, u64::MAX, u32::MAX as u64 + 7])) };
            ("origin-out-of-range".into(), if uses_coords { None } else { Some(true) })
        }
        5 => {
            q[dkey] = if uses_coords { json!(*rng.pick(&[181.0, -500.0, 1e12])) } else { json!(*rng.pick(&[1_000_000u64, u64::MAX])) };
            ("destination-out-of-range".into(), if uses_coords { None } else { Some(true) })
        }
        6 => {
            q["grid_search"] = json!({});
            ("grid-empty-object".into(), None)
        }
        7 => {
            q["grid_search"] = json!([]);
            ("grid-array".into(), if grid { Some(true) } else { None })
        }
        8 => {
            q["grid_search"] = any_json(rng);
            ("grid-any-type".into(), None)
        }
        9 => {
            // 1..4 axes of which at least one is empty, at any position among non-empty ones and non-array entries
            let n_axes = rng.urange(1, 4);
            let empty_at = rng.below(n_axes);
            let mut g = Map::new();
            for a in 0..n_axes {
                let len = if a == empty_at || rng.chance(0.25) { 0 } else { rng.urange(1, 3) };
                let opts: Vec<Value> = (0..len).map(|i| if rng.chance(0.3) { json!({format!("ax{a}"): i}) } else { json!(i) }).collect();
                g.insert(format!("axis{a}"), Value::Array(opts));
            }
            if rng.chance(0.3) {
                g.insert("scalar_entry".into(), json!(5));
            }
            q["grid_search"] = Value::Object(g);
            ("grid-empty-axis".into(), if grid { Some(true) } else { None })
        }
        10 => {
            q["grid_search"] = json!({"a": 5, "b": "x"});
            ("grid-no-axis".into(), None)
        }
        11 => {
            q["grid_search"] = json!({"a": [1, 2], "inner": [{"grid_search": {"b": [1]}}]});
            ("grid-nested".into(), if grid { Some(true) } else { None })
        }
        12 => {
            q["grid_search"] = json!({"a": [1], "b": ["x"], "c": [null], "d": [{"e": 1}], "f": [[1, 2]], "g": [true]});
            ("grid-six-axes-of-one".into(), None)
        }
        13 => {
            if uses_coords {
                q["destination_x"] = q["origin_x"].clone();
                q["destination_y"] = q["origin_y"].clone();
            } else {
                q[dkey] = q[okey].clone();
            }
            ("origin-equals-destination".into(), None)
        }
        14 => {
            q["model_name"] = json!("no_such_vehicle");
            ("unknown-model-name".into(), if spec.energy.is_some() { Some(true) } else { None })
        }
        15 => {
            let names: Vec<String> = spec.world.cost.weights.iter().map(|w| w.0.clone()).collect();
            let mut w = Map::new();
            for n in names {
                w.insert(n, json!(0.0));
            }
            q["weights"] = Value::Object(w);
            ("zero-weights".into(), Some(true))
        }
        16 => {
            q["weights"] = any_json(rng);
            ("weights-any-type".into(), None)
        }
        17 => {
            q["k"] = any_json(rng);
            ("k-any-type".into(), None)
        }
        18 => {
            // k multiplies the work a well-formed query asks for; for Yen's algorithm on a network with very many
            // simple paths a request for 1e9 routes is legitimately enormous, so it is only sent where the number of
            // routes is bounded by the network (single-via: one per intersection vertex; plain searches ignore k)
            let yens = matches!(spec.alg, Alg::Yens { .. });
            // ... or, for Yen's algorithm, by the number of loop-free routes between the query's end points when the
            // generator can count them (ids given, at most 300 such routes): then any k is answered after that many routes
            let net = &spec.world.net;
            let ends = if spec.edge_oriented {
                match (q.get("origin_edge").and_then(|v| v.as_u64()), q.get("destination_edge").and_then(|v| v.as_u64())) {
                    (Some(a), Some(b)) if (a as usize) < net.ne() && (b as usize) < net.ne() => Some((net.edges[a as usize].dst, net.edges[b as usize].src)),
                    _ => None,
                }
            } else {
                match (q.get("origin_vertex").and_then(|v| v.as_u64()), q.get("destination_vertex").and_then(|v| v.as_u64())) {
                    (Some(a), Some(b)) => Some((a as usize, b as usize)),
                    _ => None,
                }
            };
            let few_routes = ends.map(|(o, d)| crate::oracle::graph::count_simple_paths(net, o, d, 300, 200_000).is_some()).unwrap_or(false);
            let choices: &[u64] = if !yens {
                &[0, 1, 1000, 1_000_000_000, 10_000_000_000_000, u64::MAX]
            } else if few_routes {
                &[0, 1, 1000, 1_000_000_000, 10_000_000_000_000, u64::MAX]
            } else {
                &[0, 1, 300, 1000]
            };
            q["k"] = json!(*rng.pick(choices));
            ("k-absurd".into(), None)
        }
        19 => {
            q["weight_factor"] = if rng.chance(0.5) { any_json(rng) } else { json!(*rng.pick(&[-5.0, 0.0, 1e300, 1e-300])) };
            ("weight-factor-absurd".into(), None)
        }
        20 => {
            q["starting_soc_percent"] = if rng.chance(0.5) { any_json(rng) } else { json!(*rng.pick(&[-1.0, 100.0001, 1e9])) };
            let in_range = q["starting_soc_percent"].as_f64().map(|x| (0.0..=100.0).contains(&x)).unwrap_or(false);
            ("starting-charge-absurd".into(), if !in_range && spec.energy.as_ref().map(|e| e.vehicle != "ice").unwrap_or(false) { Some(true) } else { None })
        }
        21 => {
            // long texts mixing one-, two-, three- and four-byte characters (random lengths, so that any byte offset an
            // implementation may cut at falls inside a character sooner or later)
            let long_text = |rng: &mut Rng| -> String {
                let n = rng.urange(200, 1500);
                (0..n).map(|_| *rng.pick(&['a', 'Z', ' ', '\u{e9}', '\u{3b1}', '\u{6f22}', '\u{1f697}', '"', '\\'])).collect()
            };
            q = match rng.below(10) {
                7 => json!(long_text(rng)),
                8 => Value::Array((0..rng.urange(2, 12)).map(|i| json!({"qid": format!("{qid}n{i}"), "name": long_text(rng), "origin_vertex": 0, "destination_vertex": 1})).collect()),
                9 => json!([[long_text(rng)], long_text(rng)]),
                0 => json!(17),
                1 => json!("a string"),
                2 => json!(true),
                3 => Value::Null,
                4 => json!([]),
                5 => json!([[{"qid": qid}]]),
                _ => json!(-0.5),
            };
            ("not-an-object".into(), Some(true))
        }
        22 => {
            if rng.chance(0.5) {
                q["state_features"] = any_json(rng);
                ("state-features-any-type".into(), None)
            } else {
                // well-formed feature descriptions under names the models may or may not declare, of the declared or of
                // another feature type
                let mut m = serde_json::Map::new();
                for _ in 0..rng.urange(1, 3) {
                    let name = *rng.pick(&["distance", "time", "energy_liquid", "energy_electric", "battery_state", "trip_distance", "no_such_feature", ""]);
                    let f = match rng.below(4) {
                        0 => json!({"distance_unit": *rng.pick(&["miles", "meters", "kilometers"]), "initial": rng.frange(0.0, 5.0)}),
                        1 => json!({"time_unit": *rng.pick(&["hours", "minutes", "seconds"]), "initial": rng.frange(0.0, 5.0)}),
                        2 => json!({"energy_unit": *rng.pick(&["kilowatt_hours", "gallons_gasoline"]), "initial": rng.frange(0.0, 5.0)}),
                        _ => json!({"name": "soc", "unit": "percent", "format": {"type": "floating_point", "initial": 50.0}}),
                    };
                    m.insert(name.to_string(), f);
                }
                q["state_features"] = Value::Object(m);
                ("state-features-well-formed-any-name".into(), None)
            }
        }
        23 => {
            q["query_weight_estimate"] = any_json(rng);
            ("weight-estimate-any-type".into(), None)
        }
        24 => {
            // a well-formed query that carries a long free-text field with multi-byte characters: served as usual
            let n = rng.urange(200, 3000);
            let text: String = (0..n).map(|_| *rng.pick(&['a', ' ', '\u{e9}', '\u{3b1}', '\u{6f22}', '\u{1f697}', '"', '\\', '\n'])).collect();
            q["name"] = json!(text);
            ("long-unicode-text-field".into(), None)
        }
        _ => {
            q["vehicle_rates"] = if rng.chance(0.5) { any_json(rng) } else { json!({"distance": {"type": "factor", "factor": -3.0}}) };
            q["cost_aggregation"] = json!(*rng.pick(&["sum", "mul", "max"]));
            ("cost-overrides-absurd".into(), None)
        }
    };
    (q, label, must)
}

fn alg_class(a: &Alg) -> &'static str {
    a.family()
}

fn case(case_no: usize, rng: &mut Rng, rep: &mut Report, case_file: &std::path::Path) {
    let spec = gen_spec(rng);
    let net = &spec.world.net;
    let k = match &spec.alg {
        Alg::SingleVia { k, .. } | Alg::Yens { k, .. } => *k,
        _ => 1,
    };
    // logical budget per query on the application's worker threads (the query may override k up to 1e9;
    // a correct implementation is bounded by the number of intersection vertices / routes that exist)
    let b = crate::run::step_budget(net.nv(), net.ne(), k.max(6));
    let budget = Budget { steps: b.steps, ksp_outer: b.ksp_outer, ksp_inner: b.ksp_inner };
    let built = match catch(|| build_app(&spec, "c12")) {
        Ok(Ok(b)) => b,
        Ok(Err(e)) => {
            rep.violate("C12|CompassApp::try_from|load-error", format!("well-formed configuration refused: {}", e.lines().next().unwrap_or("")), || json!({"toml": e}));
            return;
        }
        Err(pm) => {
            rep.violate(&format!("C12|CompassApp::try_from|{}", panic_sig(&pm)), pm, || json!({}));
            return;
        }
    };
    let cfg_class = format!(
        "{}|{}|{}",
        alg_class(&spec.alg),
        if spec.energy.is_some() { "energy" } else if spec.world.uses_time() { "speed" } else { "distance" },
        spec.input_plugins.iter().map(|p| format!("{:?}", p).split([' ', '{', '(']).next().unwrap_or("").to_string()).collect::<Vec<_>>().join("+")
    );
    rep.seen("configurations", cfg_class.clone());
    let nbatches = 3;
    for bno in 0..nbatches {
        rep.eval();
        // batch: empty, single, or 2..50 items mixing untouched valid queries with mutated ones
        let n = match bno {
            0 => 0,
            1 => 1,
            _ => rng.urange(2, 50),
        };
        let mut items: Vec<(Value, String, Option<bool>)> = vec![];
        for i in 0..n {
            let qid = format!("x{case_no}b{bno}q{i}");
            if rng.chance(0.35) {
                let mut q = valid_query(rng, &spec, &qid);
                energy_fields(&spec, &mut q, rng);
                items.push((q, "valid".into(), None));
            } else {
                items.push(mutate(rng, &spec, &qid));
            }
        }
        let batch: Vec<Value> = items.iter().map(|x| x.0.clone()).collect();
        let desc = json!({"rerun": format!("VERIF_ONLY_CASE={case_no} VERIF_SEED=<seed of this run> ./check C12 <tier>"), "case": case_no, "batch_no": bno, "toml": built.toml, "batch": batch, "mutations": items.iter().map(|x| x.1.clone()).collect::<Vec<_>>(), "world": spec.world.to_json()});
        // the parent needs the input of a case that kills the process
        let _ = std::fs::write(case_file, serde_json::to_string(&desc).unwrap_or_default());
        let rec = Arc::new(Recorder::new(rng.next_u64(), false).with_budget(budget).with_net_size(net.nv(), net.ne()));
        let rc = rec.clone();
        set_app_sink(Some(Arc::new(move |ev| rc.on_event(ev))));
        let out = catch(|| built.app.run(batch.clone(), None));
        set_app_sink(None);
        let replay = || desc.clone();
        let muts: Vec<&str> = items.iter().map(|x| x.1.as_str()).collect();
        let responses = match out {
            Err(pm) => {
                if pm.starts_with("budget exceeded") {
                    let which = if pm.contains("KspOuter") { "ksp-outer-loop" } else if pm.contains("KspInner") { "ksp-inner-loop" } else { "search-loop" };
                    rep.violate(&format!("C12|{}|unbounded|{which}", alg_class(&spec.alg)), format!("X2 a query exceeded its logical step budget: {pm} (mutations in the batch: {muts:?})"), replay);
                } else {
                    // attribute to the only mutation present when the batch has one item
                    let m = if items.len() == 1 { items[0].1.clone() } else { "batch".to_string() };
                    rep.violate(&format!("C12|run|{}|{m}", panic_sig(&pm)), format!("X1 run() panicked: {pm} (mutations: {muts:?})"), replay);
                }
                continue;
            }
            Ok(Err(e)) => {
                rep.violate("C12|run|returns-err", format!("X3 run() returned Err instead of error responses: {e} (mutations: {muts:?})"), replay);
                continue;
            }
            Ok(Ok(v)) => v,
        };
        // X5 every response is an object with a request; X4 every query is answered
        let mut answered = vec![0usize; items.len()];
        let mut shape_ok = true;
        for r in &responses {
            if !r.is_object() || r.get("request").is_none() {
                rep.violate("C12|response|not-an-object-with-request", format!("X5 response {}", r.to_string().chars().take(200).collect::<String>()), replay);
                shape_ok = false;
                break;
            }
            let rq = &r["request"]["qid"];
            for (i, it) in items.iter().enumerate() {
                let same_qid = it.0.get("qid").map(|q| q == rq).unwrap_or(false);
                // a non-object query has no id: it takes one error response whose request is the query itself, an
                // element of it, or the placeholder the pipeline uses when it reports the query inside the error text
                let anonymous = !it.0.is_object() && answered[i] == 0 && r.get("error").is_some() && (r["request"] == it.0 || request_superset(&r["request"], &it.0) || r["request"].get("qid").is_none());
                // a (nested) array of query objects offered as one element is flattened and each object answered on its own,
                // successfully or not: any of those responses shows that the element was served
                fn leaves<'a>(v: &'a Value, out: &mut Vec<&'a Value>) {
                    match v {
                        Value::Array(a) => a.iter().for_each(|x| leaves(x, out)),
                        other => out.push(other),
                    }
                }
                let element_answer = it.0.is_array() && {
                    let mut l = vec![];
                    leaves(&it.0, &mut l);
                    l.iter().any(|leaf| leaf.is_object() && leaf.get("qid").is_some() && leaf.get("qid") == r["request"].get("qid") && request_superset(&r["request"], leaf))
                };
                if same_qid || anonymous || element_answer {
                    answered[i] += 1;
                    if it.0.is_object() && !request_superset(&r["request"], &it.0) && r["request"].get("qid") == it.0.get("qid") {
                        // plugins may add fields; a submitted field must not change (grid options and the weight estimate aside)
                        rep.violate(&format!("C12|response|request-not-echoed|{}", it.1), format!("X5 request {} for query {}", r["request"].to_string().chars().take(200).collect::<String>(), it.0.to_string().chars().take(200).collect::<String>()), replay);
                        shape_ok = false;
                    }
                    break;
                }
            }
        }
        if !shape_ok {
            continue;
        }
        if let Some(i) = answered.iter().position(|a| *a == 0) {
            rep.violate(&format!("C12|response|query-not-answered|{}", items[i].1), format!("X4 no response for query {} ({} responses for {} queries)", items[i].0.to_string().chars().take(200).collect::<String>(), responses.len(), items.len()), replay);
            continue;
        }
        // X6 ill-formed queries are error responses
        let mut ok6 = true;
        for (i, it) in items.iter().enumerate() {
            if it.2 == Some(true) && it.0.is_object() {
                let mine: Vec<&Value> = responses.iter().filter(|r| r["request"].get("qid") == it.0.get("qid")).collect();
                if mine.iter().any(|r| r.get("error").is_none()) {
                    rep.violate(&format!("C12|response|ill-formed-query-not-an-error|{}", it.1), format!("X6 query {} was answered without an error field", it.0.to_string().chars().take(240).collect::<String>()), replay);
                    ok6 = false;
                    break;
                }
            }
            let _ = i;
        }
        if !ok6 {
            continue;
        }
        // X6' o = d: an error, or a success with an empty route
        for it in items.iter().filter(|x| x.1 == "origin-equals-destination") {
            for r in responses.iter().filter(|r| r["request"].get("qid") == it.0.get("qid")) {
                if r.get("error").is_none() {
                    let route = &r["route"];
                    let empty = route.is_null() || route["path"].as_array().map(|a| a.is_empty()).unwrap_or(false);
                    if !empty {
                        rep.violate("C12|response|same-origin-destination-returns-a-route", format!("X6 {}", r.to_string().chars().take(200).collect::<String>()), replay);
                    }
                }
            }
        }
        // X7 untouched valid queries are answered as when alone
        for it in items.iter().filter(|x| x.1 == "valid").take(4) {
            let rec = Arc::new(Recorder::new(0, false).with_budget(budget));
            let rc = rec.clone();
            set_app_sink(Some(Arc::new(move |ev| rc.on_event(ev))));
            let alone = catch(|| built.app.run(vec![it.0.clone()], Some(&json!({"parallelism": 1}))));
            set_app_sink(None);
            if let Ok(Ok(a)) = alone {
                // the k-shortest-path algorithms pick among alternatives whose queue priorities tie (floored or equal
                // costs) in hash-map iteration order, which differs from run to run even for a query alone; "served as
                // when alone" is therefore judged on success / error and the first (least-cost) route for them
                let ksp = spec.alg.is_ksp();
                let proj = |r: &Value| -> String {
                    let mut p = project(r);
                    if ksp {
                        if let Some(a) = p["route"].as_array() {
                            p["route"] = a.first().cloned().unwrap_or(Value::Null);
                        }
                    }
                    p.to_string()
                };
                let mut pa: Vec<String> = a.iter().map(proj).collect();
                let mut pb: Vec<String> = responses.iter().filter(|r| r["request"].get("qid") == it.0.get("qid")).map(proj).collect();
                pa.sort();
                pb.sort();
                if pa != pb {
                    rep.violate("C12|response|valid-query-answered-differently-in-hostile-batch", format!("X7 alone {} vs in the batch {}", pa.join(";").chars().take(300).collect::<String>(), pb.join(";").chars().take(300).collect::<String>()), || {
                        let mut r = desc.clone();
                        r["alone"] = json!(pa);
                        r["in_batch"] = json!(pb);
                        r["query"] = it.0.clone();
                        r
                    });
                    break;
                }
                rep.count("valid_queries_compared_with_alone", 1);
            }
        }
        rep.count("batches", 1);
        rep.count("queries", items.len() as u64);
        rep.count("responses", responses.len() as u64);
        for it in &items {
            rep.seen("mutation_classes", it.1.clone());
        }
        for r in &responses {
            if let Some(e) = r.get("error") {
                let t: String = e.to_string().chars().take(60).map(|c| if c.is_ascii_digit() { '#' } else { c }).collect();
                rep.seen("error_messages", t);
            }
        }
        if items.iter().any(|x| x.1 != "valid") {
            rep.nontrivial(hash_str(&format!("{cfg_class}|{:?}|{}", muts, batch.len())));
        }
        if bno == 2 {
            rep.sample(|| json!({"configuration": cfg_class, "batch_size": batch.len(), "mutations": muts, "responses": responses.len(), "error_responses": responses.iter().filter(|r| r.get("error").is_some()).count(), "example_query": batch.iter().find(|q| !q.is_object() || q.get("grid_search").is_some()).or(batch.first())}));
        }
    }
}

/// deterministic witnesses of the listed findings (Yen's algorithm never ends on one- and two-edge routes)
fn directed(rep: &mut Report, case_file: &std::path::Path) {
    use crate::gen::net::{RefEdge, RefNet};
    use crate::world::{AccessCfg, CostCfg, FrontierCfg, StateCfg, TermCfg, World};
    use routee_compass_core::model::cost::cost_aggregation::CostAggregation;
    use routee_compass_core::model::unit::{DistanceUnit, TimeUnit};
    let net = RefNet {
        coords: vec![(-105.0, 39.70), (-105.0, 39.71), (-105.0, 39.72), (-105.01, 39.71)],
        edges: vec![
            RefEdge { src: 0, dst: 1, len_m: 1200.0 },
            RefEdge { src: 1, dst: 2, len_m: 1200.0 },
            RefEdge { src: 0, dst: 3, len_m: 1500.0 },
            RefEdge { src: 3, dst: 2, len_m: 1500.0 },
            RefEdge { src: 3, dst: 1, len_m: 1400.0 },
        ],
        motifs: vec![],
        metric: true,
    };
    let world = World {
        net,
        trav: TravCfg::Distance { unit: DistanceUnit::Kilometers },
        state: StateCfg { dist_unit: DistanceUnit::Kilometers, dist_init: 0.0, time_unit: TimeUnit::Seconds, time_init: 0.0 },
        access: AccessCfg::None,
        access_wrap: 0,
        cost: CostCfg { weights: vec![("distance".into(), 1.0)], vehicle_rates: vec![("distance".into(), VehicleCostRate::Raw)], edge_surcharge: vec![], turn_surcharge: vec![], agg: CostAggregation::Sum },
        frontier: FrontierCfg::None,
        term: TermCfg::None,
    };
    let mut spec = AppSpec::basic(world, Alg::Yens { k: 2, under: Box::new(Alg::Dijkstra), sim: Sim::AcceptAll, term: KTerm::Default });
    spec.output_plugins = vec![OutputPlugin::Traversal { route: Some("edge_id".into()), tree: None }];
    let built = match catch(|| build_app(&spec, "c12d")) {
        Ok(Ok(b)) => b,
        _ => {
            rep.inconclusive("the directed application could not be built".into());
            return;
        }
    };
    let b = crate::run::step_budget(4, 5, 6);
    for (name, q) in [("one-edge-route", json!({"qid": "d1", "origin_vertex": 0, "destination_vertex": 1})), ("two-edge-route", json!({"qid": "d2", "origin_vertex": 0, "destination_vertex": 2}))] {
        rep.eval();
        let desc = json!({"directed": name, "toml": built.toml, "batch": [q], "mutations": ["valid"]});
        let _ = std::fs::write(case_file, desc.to_string());
        let rec = Arc::new(Recorder::new(0, false).with_budget(b));
        let rc = rec.clone();
        set_app_sink(Some(Arc::new(move |ev| rc.on_event(ev))));
        let out = catch(|| built.app.run(vec![q.clone()], None));
        set_app_sink(None);
        match out {
            Err(pm) if pm.starts_with("budget exceeded") => {
                let which = if pm.contains("KspOuter") { "ksp-outer-loop" } else if pm.contains("KspInner") { "ksp-inner-loop" } else { "search-loop" };
                rep.violate(&format!("C12|yens|unbounded|{which}"), format!("X2 directed case {name}: {pm}"), || desc.clone());
            }
            Err(pm) => rep.violate(&format!("C12|run|{}|directed", panic_sig(&pm)), pm, || desc.clone()),
            Ok(_) => {}
        }
        rep.count("directed_cases", 1);
    }
}

// ------------------------------------------------------------------------------------------
// worker / parent
// ------------------------------------------------------------------------------------------

pub fn worker(args: &[String]) -> i32 {
    // args: seed from to logfile
    if args.len() < 4 {
        return 2;
    }
    let seed: u64 = args[0].parse().unwrap_or(1);
    let from: usize = args[1].parse().unwrap_or(0);
    let to: usize = args[2].parse().unwrap_or(0);
    let log_path = args[3].clone();
    unsafe {
        let lim = libc::rlimit { rlim_cur: ADDRESS_SPACE_LIMIT, rlim_max: ADDRESS_SPACE_LIMIT };
        libc::setrlimit(libc::RLIMIT_AS, &lim);
    }
    let _ = silence_stderr();
    crate::hooks::install();
    let mut log = match std::fs::OpenOptions::new().create(true).append(true).open(&log_path) {
        Ok(f) => f,
        Err(_) => return 2,
    };
    let base = Rng::new(seed);
    let case_file = std::path::PathBuf::from(format!("{log_path}.case"));
    if from == 0 {
        let _ = writeln!(log, "{}", json!({"ev": "start", "case": "directed"}));
        let _ = log.flush();
        let mut rep = Report::new();
        directed(&mut rep, &case_file);
        let _ = writeln!(log, "{}", json!({"ev": "end", "case": "directed", "report": rep.to_json()}));
        let _ = log.flush();
    }
    for i in from..to {
        let _ = writeln!(log, "{}", json!({"ev": "start", "case": i}));
        let _ = log.flush();
        let mut rng = base.fork(i as u64 + 1);
        let mut rep = Report::new();
        case(i, &mut rng, &mut rep, &case_file);
        let _ = writeln!(log, "{}", json!({"ev": "end", "case": i, "report": rep.to_json()}));
        let _ = log.flush();
    }
    0
}

pub fn run(tier: Tier, seed: u64) -> MonOut {
    let n = tier.n(1_600, 60_000);
    let only: Option<usize> = std::env::var("VERIF_ONLY_CASE").ok().and_then(|s| s.parse().ok());
    let (first_case, n) = match only {
        Some(c) => (c, c + 1),
        None => (0, n),
    };
    let nworkers = 8usize.min((n - first_case).max(1));
    let exe = std::env::current_exe().unwrap_or_else(|_| "verif".into());
    let work = crate::appgen::work_root().join(format!("c12-{}", std::process::id()));
    let _ = std::fs::create_dir_all(&work);
    let mut rep = Report::new();
    // contiguous ranges; a worker that dies is restarted after the case that killed it
    let per = (n - first_case).div_ceil(nworkers);
    struct W {
        from: usize,
        to: usize,
        log: std::path::PathBuf,
        child: Option<std::process::Child>,
        last_progress: std::time::Instant,
        last_len: u64,
        done: bool,
    }
    let spawn = |from: usize, to: usize, log: &std::path::Path| -> Option<std::process::Child> {
        std::process::Command::new(&exe)
            .args(["worker", "C12", &seed.to_string(), &from.to_string(), &to.to_string(), &log.to_string_lossy()])
            .arg("--root")
            .arg(crate::root())
            .env("RAYON_NUM_THREADS", "4")
            .stdout(std::process::Stdio::null())
            .stderr(std::process::Stdio::null())
            .spawn()
            .ok()
    };
    let mut ws: Vec<W> = (0..nworkers)
        .map(|w| {
            let from = first_case + w * per;
            let to = (first_case + (w + 1) * per).min(n);
            let log = work.join(format!("w{w}.log"));
            let child = if from < to { spawn(from, to, &log) } else { None };
            W { from, to, log, child, last_progress: std::time::Instant::now(), last_len: 0, done: from >= to }
        })
        .collect();
    let stall = std::time::Duration::from_secs(if tier.thorough { 600 } else { 300 });
    loop {
        let mut all_done = true;
        for w in ws.iter_mut() {
            if w.done {
                continue;
            }
            all_done = false;
            let len = std::fs::metadata(&w.log).map(|m| m.len()).unwrap_or(0);
            if len != w.last_len {
                w.last_len = len;
                w.last_progress = std::time::Instant::now();
            }
            let status = match w.child.as_mut() {
                Some(c) => c.try_wait().ok().flatten(),
                None => {
                    w.done = true;
                    continue;
                }
            };
            let stalled = w.last_progress.elapsed() > stall;
            if status.is_none() && !stalled {
                continue;
            }
            if stalled && status.is_none() {
                if let Some(c) = w.child.as_mut() {
                    let _ = c.kill();
                    let _ = c.wait();
                }
            }
            // read the log: which cases ended, which one was running
            let text = std::fs::read_to_string(&w.log).unwrap_or_default();
            let mut started: Option<usize> = None;
            let mut last_ended: Option<usize> = None;
            for l in text.lines() {
                if let Ok(v) = serde_json::from_str::<Value>(l) {
                    match v["ev"].as_str() {
                        Some("start") => started = v["case"].as_u64().map(|x| x as usize),
                        Some("end") => {
                            last_ended = v["case"].as_u64().map(|x| x as usize);
                            started = None;
                        }
                        _ => {}
                    }
                }
            }
            let clean_exit = status.map(|s| s.success()).unwrap_or(false);
            if clean_exit && started.is_none() {
                w.done = true;
                continue;
            }
            let next = match started {
                Some(c) => {
                    let input: Value = std::fs::read_to_string(format!("{}.case", w.log.to_string_lossy())).ok().and_then(|t| serde_json::from_str(&t).ok()).unwrap_or(Value::Null);
                    if stalled && status.is_none() {
                        rep.inconclusive(format!("worker made no progress for {:?} in case {c}; killed by the wall-clock watchdog", stall));
                    } else {
                        use std::os::unix::process::ExitStatusExt;
                        let how = status.map(|s| match s.signal() {
                            Some(sig) => format!("signal-{sig}"),
                            None => format!("exit-{}", s.code().unwrap_or(-1)),
                        }).unwrap_or_else(|| "unknown".into());
                        let muts: Vec<String> = input["mutations"].as_array().map(|a| a.iter().filter_map(|x| x.as_str().map(String::from)).collect()).unwrap_or_default();
                        let m = if muts.len() == 1 { muts[0].clone() } else { "batch".into() };
                        rep.violate(&format!("C12|process-died|{how}|{m}"), format!("X1 the worker process died ({how}) while running a batch (address space limited to {} GiB); mutations in the batch: {muts:?}", ADDRESS_SPACE_LIMIT >> 30), || input.clone());
                    }
                    c + 1
                }
                None => last_ended.map(|c| c + 1).unwrap_or(w.from),
            };
            rep.count("worker_restarts", 1);
            if next < w.to {
                w.from = next;
                w.child = spawn(next, w.to, &w.log);
                w.last_progress = std::time::Instant::now();
                if w.child.is_none() {
                    rep.inconclusive("could not restart a worker".into());
                    w.done = true;
                }
            } else {
                w.done = true;
            }
        }
        if all_done {
            break;
        }
        std::thread::sleep(std::time::Duration::from_millis(200));
    }
    // merge the per-case reports
    let mut cases_done = 0;
    for w in &ws {
        let text = std::fs::read_to_string(&w.log).unwrap_or_default();
        for l in text.lines() {
            if let Ok(v) = serde_json::from_str::<Value>(l) {
                if v["ev"].as_str() == Some("end") {
                    rep.merge(Report::from_json(&v["report"]));
                    cases_done += 1;
                }
            }
        }
    }
    rep.count("cases_completed", cases_done);
    let _ = std::fs::remove_dir_all(&work);
    MonOut {
        report: rep,
        rule: "worker subprocesses (address space limited to 6 GiB, stderr discarded) build applications over plugin configurations {none, inject, grid_search, vertex_rtree, edge_rtree, load_balancer haversine|numeric|categorical and combinations}, algorithms {Dijkstra, A*, single-via, Yen}, traversal {distance, speed, energy ice|bev|phev with/without prediction cache}, outputs {summary, traversal in any format, uuid}; per application three batches: empty, one item, 2..50 items; 65 % of the items are structural mutations of a valid query from 25 classes (drop / retype / out-of-range origin and destination, empty / array / scalar / empty-axis / no-axis / nested / six-axes grid sections, origin = destination, unknown model name, zero weights, absurd k / weight_factor / starting charge / cost overrides / state_features (any JSON, or well-formed feature descriptions under declared and undeclared names), non-object queries of every JSON type). every query runs under a logical step budget enforced on the application's worker threads through hook events. non-trivial = a batch with at least one mutated query; distinct by (configuration, mutation list)".into(),
        assumptions: vec![
            "a batch that kills the worker (abort, SEGV, allocation failure under the cap) is a violation with the batch as witness; a worker that makes no progress for 5 minutes is killed and reported as inconclusive, never as a violation".into(),
            "'must be an error' is only asserted for mutations that are ill-formed under every reading (missing / ill-typed / out-of-range origin, zero weights, unknown vehicle, charge outside 0..100, non-object queries, and degenerate grid sections when the grid plugin is configured)".into(),
            "origin = destination may be an error or a success with an empty route".into(),
        ],
        floor: 40,
        exhaustive: false,
        explanation: "sampled configurations and mutated batches in isolated subprocesses".into(),
    }
}

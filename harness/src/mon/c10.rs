//! C10 — search limits bound the work and never alter an answer, only stop it.
use super::{MonOut, Tier};
use crate::hooks::{with_ctx_timed, Caught, Ctx, Ev};
use crate::oracle::route::{route_ids, Od};
use crate::par::par_cases;
use crate::report::Report;
use crate::rng::{hash_str, Rng};
use crate::run::{gen_plain_alg, step_budget, Alg, KTerm, Sim};
use crate::searchcase::gen_vertex_od;
use crate::world::{gen_world, TermCfg, WorldParams};
use routee_compass_core::algorithm::search::direction::Direction;
use routee_compass_core::algorithm::search::search_algorithm_result::SearchAlgorithmResult;
use routee_compass_core::algorithm::search::search_error::SearchError;
use routee_compass_core::algorithm::search::search_instance::SearchInstance;
use routee_compass_core::model::network::{Edge, Vertex, VertexId};
use routee_compass_core::model::state::state_feature::StateFeature;
use routee_compass_core::model::state::state_model::StateModel;
use routee_compass_core::model::termination::termination_model_error::TerminationModelError;
use routee_compass_core::model::traversal::state::state_variable::StateVar;
use routee_compass_core::model::traversal::traversal_model::TraversalModel;
use routee_compass_core::model::traversal::traversal_model_error::TraversalModelError;
use serde_json::{json, Value};
use std::sync::Arc;
use std::time::Duration;

struct SlowTraversal {
    inner: Arc<dyn TraversalModel>,
    sleep: Duration,
}
impl TraversalModel for SlowTraversal {
    fn state_features(&self) -> Vec<(String, StateFeature)> {
        self.inner.state_features()
    }
    fn traverse_edge(&self, t: (&Vertex, &Edge, &Vertex), s: &mut Vec<StateVar>, m: &StateModel) -> Result<(), TraversalModelError> {
        std::thread::sleep(self.sleep);
        self.inner.traverse_edge(t, s, m)
    }
    fn estimate_traversal(&self, od: (&Vertex, &Vertex), s: &mut Vec<StateVar>, m: &StateModel) -> Result<(), TraversalModelError> {
        self.inner.estimate_traversal(od, s, m)
    }
}

/// canonical form of a result for identity comparison
fn canon(r: &SearchAlgorithmResult) -> (Vec<Vec<usize>>, Vec<Vec<(usize, usize, usize)>>) {
    let routes = r.routes.iter().map(|x| route_ids(x)).collect();
    let trees = r
        .trees
        .iter()
        .map(|t| {
            let mut v: Vec<(usize, usize, usize)> = t.iter().map(|(k, b)| (k.0, b.terminal_vertex.0, b.edge_traversal.edge_id.0)).collect();
            v.sort();
            v
        })
        .collect();
    (routes, trees)
}

enum Outcome {
    Ok(SearchAlgorithmResult),
    Terminated(String),
    OtherErr(String),
}

fn run_once(alg: &Alg, si: &SearchInstance, od: Od, reverse: bool, budget: crate::hooks::Budget, timed: bool) -> (Result<Outcome, Caught>, Ctx) {
    let sa = alg.build();
    let dir = if reverse { Direction::Reverse } else { Direction::Forward };
    let q = json!({});
    let (out, ctx) = with_ctx_timed(budget, true, timed, || match od {
        Od::Vertex(s, d) => sa.run_vertex_oriented(VertexId(s), d.map(VertexId), &q, &dir, si),
        Od::Edge(s, d) => sa.run_edge_oriented(routee_compass_core::model::network::edge_id::EdgeId(s), d.map(routee_compass_core::model::network::edge_id::EdgeId), &q, &dir, si),
    });
    let out = out.map(|r| match r {
        Ok(r) => Outcome::Ok(r),
        Err(SearchError::TerminationModelFailure { source: TerminationModelError::QueryTerminated(m) }) => Outcome::Terminated(m),
        Err(e) => Outcome::OtherErr(e.to_string()),
    });
    (out, ctx)
}

/// per sub-search (split at SearchStart) pop counts and max tree sizes seen at loop tops
fn per_search_stats(events: &[Ev]) -> Vec<(u64, usize, bool)> {
    let mut out = vec![];
    let mut cur: Option<(u64, usize, bool)> = None;
    for ev in events {
        match ev {
            Ev::SearchStart { .. } => {
                if let Some(c) = cur.take() {
                    out.push(c);
                }
                cur = Some((0, 0, false));
            }
            Ev::Pop { .. } => {
                if let Some(c) = cur.as_mut() {
                    c.0 += 1;
                }
            }
            Ev::LoopTop { tree_len, .. } => {
                if let Some(c) = cur.as_mut() {
                    c.1 = c.1.max(*tree_len);
                }
            }
            Ev::SearchEnd { tree_len, .. } => {
                if let Some(c) = cur.as_mut() {
                    c.1 = c.1.max(*tree_len);
                    c.2 = true;
                }
            }
            _ => {}
        }
    }
    if let Some(c) = cur.take() {
        out.push(c);
    }
    out
}

fn sweep_values(need: u64, rng: &mut Rng) -> Vec<u64> {
    let hi = need + 3;
    if hi <= 16 {
        (0..=hi).collect()
    } else {
        let mut v = vec![0, 1, 2, need.saturating_sub(2), need.saturating_sub(1), need, need + 1, need + 2, need + 3];
        for _ in 0..6 {
            v.push(rng.range(3, hi as i64) as u64);
        }
        v.sort();
        v.dedup();
        v
    }
}

fn case(tier: Tier, rng: &mut Rng, rep: &mut Report, timed_case: bool) {
    let mut p = WorldParams::default();
    p.net.max_v = if tier.thorough { 40 } else { 18 };
    p.net.min_v = 3;
    p.net.metric = rng.chance(0.6);
    p.net.p_blocks = 0.2;
    p.allow_turn_delay = false;
    p.rich_cost = false;
    let world = gen_world(rng, &p);
    let net = world.net.clone();
    let via_files = rng.chance(0.2);
    let graph = match crate::gen::net::graph_for(&net, via_files) {
        Ok(g) => g,
        Err(e) => {
            rep.violate("graph-load|error", format!("the network files written by the generator were refused: {e}"), || net.to_json());
            return;
        }
    };
    rep.count(if via_files { "graphs_loaded_from_files" } else { "graphs_built_in_memory" }, 1);
    let mut si = match world.si(graph, &json!({})) {
        Ok(s) => s,
        Err(e) => {
            rep.inconclusive(format!("could not build a search instance: {e}"));
            return;
        }
    };
    let maxdeg = net.max_out_degree().max(net.max_in_degree());
    for _ in 0..(if timed_case { 1 } else { 3 }) {
        let ksp = !timed_case && rng.chance(0.3);
        let alg = if ksp {
            let k = rng.urange(1, 3);
            let under = Box::new(gen_plain_alg(rng, true));
            // Yen's algorithm is driven with k >= 2 as well: queries on which its unlimited run does not end
            // (listed findings of C13) are skipped below, all others must obey the limits in every spur search
            if rng.chance(0.6) { Alg::SingleVia { k, under, sim: Sim::AcceptAll, term: KTerm::Default } } else { Alg::Yens { k: rng.urange(1, 3), under, sim: Sim::AcceptAll, term: KTerm::Default } }
        } else {
            gen_plain_alg(rng, true)
        };
        let with_dest = ksp || rng.chance(0.8);
        let mut od = gen_vertex_od(rng, &net, with_dest);
        let mut reverse = !ksp && rng.chance(0.4);
        // one query in five is edge-oriented (forward): the wrapper around the search must hand a limit's verdict on
        // unchanged. drawn from a forked stream so that the other cases stay what they were
        let mut re = rng.fork(0xC10E);
        if !timed_case && re.chance(0.2) {
            od = crate::searchcase::gen_edge_od(&mut re, &net, with_dest);
            reverse = false;
            rep.count("edge_oriented_queries", 1);
        }
        let budget = step_budget(net.nv(), net.ne(), 3);
        let replay_base = json!({"world": world.to_json(), "algorithm": alg.to_json(), "od": format!("{:?}", od), "direction": if reverse {"reverse"} else {"forward"}});
        // 1. unlimited reference run
        si.termination_model = Arc::new(TermCfg::None.build());
        let (out0, ctx0) = run_once(&alg, &si, od, reverse, budget, false);
        let r0 = match out0 {
            Ok(Outcome::Ok(r)) => Some(canon(&r)),
            Ok(Outcome::OtherErr(_)) => None, // e.g. no path: still a valid baseline ("unlimited run fails with X")
            Ok(Outcome::Terminated(m)) => {
                rep.violate("C10|unlimited|terminated", format!("an effectively unlimited search reported termination: {m}"), || replay_base.clone());
                continue;
            }
            Err(_) => {
                rep.count("baseline_budget_or_panic_(C13/C12)", 1);
                continue;
            }
        };
        let stats0 = per_search_stats(&ctx0.events);
        let need_pops = stats0.iter().map(|s| s.0).max().unwrap_or(0);
        let need_tree = stats0.iter().map(|s| s.1).max().unwrap_or(0) as u64;
        if timed_case {
            runtime_case(rng, rep, &alg, &mut si, od, reverse, budget, &replay_base, &r0, need_pops);
            continue;
        }
        // 2. iteration limit sweep
        let mut ok_iter: Vec<(u64, bool)> = vec![];
        for l in sweep_values(need_pops + 1, rng) {
            rep.eval();
            si.termination_model = Arc::new(TermCfg::Iterations(l).build());
            let (out, ctx) = run_once(&alg, &si, od, reverse, budget, false);
            let replay = || {
                let mut r = replay_base.clone();
                r["limit"] = json!({"iterations": l});
                r
            };
            let fam = alg.family();
            let stats = per_search_stats(&ctx.events);
            // L1 never more expansion steps than the limit, in any sub-search
            if let Some(s) = stats.iter().find(|s| s.0 > l) {
                rep.violate(&format!("C10|iterations|{fam}|more-expansions-than-limit"), format!("L1 a search performed {} expansion steps under an iteration limit of {l}", s.0), replay);
                continue;
            }
            match check_outcome(rep, out, &ctx, &r0, &format!("C10|iterations|{fam}"), &format!("iteration limit of {l}"), replay) {
                Some(ok) => ok_iter.push((l, ok)),
                None => continue,
            }
            rep.count("limited_runs", 1);
        }
        monotone(rep, &ok_iter, "iterations", &alg, &replay_base);
        // 3. solution size sweep
        let mut ok_size: Vec<(u64, bool)> = vec![];
        for l in sweep_values(need_tree, rng) {
            rep.eval();
            si.termination_model = Arc::new(TermCfg::SolutionSize(l as usize).build());
            let (out, ctx) = run_once(&alg, &si, od, reverse, budget, false);
            let replay = || {
                let mut r = replay_base.clone();
                r["limit"] = json!({"solution_size": l});
                r
            };
            let fam = alg.family();
            let stats = per_search_stats(&ctx.events);
            if let Some(s) = stats.iter().find(|s| s.1 as u64 > l + maxdeg as u64) {
                rep.violate(&format!("C10|solution_size|{fam}|tree-exceeds-limit-plus-degree"), format!("L2 tree reached {} entries under a size limit of {l} (max degree {maxdeg})", s.1), replay);
                continue;
            }
            match check_outcome(rep, out, &ctx, &r0, &format!("C10|solution_size|{fam}"), &format!("solution size limit of {l}"), replay) {
                Some(ok) => ok_size.push((l, ok)),
                None => continue,
            }
            rep.count("limited_runs", 1);
        }
        monotone(rep, &ok_size, "solution_size", &alg, &replay_base);
        // 4. combined: stops iff any inner limit stops; the message names what fired
        for _ in 0..3 {
            if ok_iter.is_empty() || ok_size.is_empty() {
                break;
            }
            rep.eval();
            let (li, oi) = ok_iter[rng.below(ok_iter.len())];
            let (ls, os) = ok_size[rng.below(ok_size.len())];
            let models = if rng.chance(0.5) { vec![TermCfg::Iterations(li), TermCfg::SolutionSize(ls as usize)] } else { vec![TermCfg::SolutionSize(ls as usize), TermCfg::Iterations(li)] };
            si.termination_model = Arc::new(TermCfg::Combined(models).build());
            let (out, ctx) = run_once(&alg, &si, od, reverse, budget, false);
            let replay = || {
                let mut r = replay_base.clone();
                r["limit"] = json!({"combined": {"iterations": li, "solution_size": ls}});
                r
            };
            let fam = alg.family();
            match out {
                Ok(Outcome::Ok(r)) => {
                    if !(oi && os) {
                        rep.violate(&format!("C10|combined|{fam}|ok-although-inner-limit-stops"), format!("combined(iterations {li}, size {ls}) returned although an inner limit alone stops the search"), replay);
                        continue;
                    }
                    if let Some(r0) = &r0 {
                        if canon(&r) != *r0 {
                            rep.violate(&format!("C10|combined|{fam}|result-differs-from-unlimited"), "L5 result under combined limits differs from the unlimited result".into(), replay);
                            continue;
                        }
                    }
                }
                Ok(Outcome::Terminated(m)) => {
                    if oi && os {
                        rep.violate(&format!("C10|combined|{fam}|stops-although-no-inner-limit-stops"), format!("combined(iterations {li}, size {ls}) terminated ({m}) although neither limit alone stops the search"), replay);
                        continue;
                    }
                    let names_it = m.contains(&format!("iteration limit of {li}"));
                    let names_sz = m.contains(&format!("solution size limit of {ls}"));
                    if !(names_it || names_sz) {
                        rep.violate(&format!("C10|combined|{fam}|message-names-no-limit"), format!("L4 termination message '{m}' names neither limit"), replay);
                        continue;
                    }
                    if !matches!(ctx.events.last(), Some(Ev::LoopTop { .. })) {
                        rep.violate(&format!("C10|combined|{fam}|work-after-termination"), "L7 events follow the terminating loop top".into(), replay);
                        continue;
                    }
                }
                Ok(Outcome::OtherErr(e)) => {
                    if r0.is_some() || !(oi && os) {
                        // an unlimited run that succeeds must not turn into another error under limits
                        if r0.is_some() {
                            rep.violate(&format!("C10|combined|{fam}|other-error"), format!("L4 limits produced a different error: {e}"), replay);
                            continue;
                        }
                    }
                }
                Err(_) => continue,
            }
            rep.count("combined_runs", 1);
        }
        if need_pops >= 3 {
            rep.nontrivial(hash_str(&format!("{}|{}|{:?}|{reverse}", net.ne(), alg.family(), od)));
            rep.sample(|| json!({"algorithm": alg.name(), "od": format!("{:?}", od), "direction": if reverse {"reverse"} else {"forward"}, "unlimited_expansions": need_pops, "unlimited_tree": need_tree, "iteration_sweep": ok_iter, "size_sweep": ok_size}));
        }
        rep.seen("configurations", format!("{}|{}|{}", alg.family(), if reverse { "reverse" } else { "forward" }, if with_dest { "dest" } else { "nodest" }));
    }
}

/// L4/L5/L7 for one limited run. returns Some(ok?) or None when a violation was reported.
fn check_outcome(
    rep: &mut Report,
    out: Result<Outcome, Caught>,
    ctx: &Ctx,
    r0: &Option<(Vec<Vec<usize>>, Vec<Vec<(usize, usize, usize)>>)>,
    sig: &str,
    expect_msg: &str,
    replay: impl Fn() -> Value,
) -> Option<bool> {
    match out {
        Err(Caught::Budget(b)) => {
            rep.violate(&format!("{sig}|step-budget-exceeded"), format!("{:?}", b), replay);
            None
        }
        Err(Caught::Panic(m)) => {
            rep.violate(&format!("{sig}|{}", crate::hooks::panic_sig(&m)), format!("panicked: {m}"), replay);
            None
        }
        Ok(Outcome::Ok(r)) => {
            match r0 {
                Some(r0) => {
                    if canon(&r) != *r0 {
                        rep.violate(&format!("{sig}|result-differs-from-unlimited"), format!("L5 under '{expect_msg}' the search returned {:?}, unlimited result is {:?}", canon(&r).0, r0.0), replay);
                        return None;
                    }
                }
                None => {
                    rep.violate(&format!("{sig}|ok-where-unlimited-fails"), "L5 the limited search succeeded where the unlimited search fails".into(), replay);
                    return None;
                }
            }
            Some(true)
        }
        Ok(Outcome::Terminated(m)) => {
            if !m.contains(expect_msg) {
                rep.violate(&format!("{sig}|message-does-not-name-limit"), format!("L4 termination message '{m}' does not name '{expect_msg}'"), replay);
                return None;
            }
            if !matches!(ctx.events.last(), Some(Ev::LoopTop { .. })) {
                rep.violate(&format!("{sig}|work-after-termination"), format!("L7 last event after termination is {:?}", ctx.events.last()), replay);
                return None;
            }
            Some(false)
        }
        Ok(Outcome::OtherErr(e)) => {
            if r0.is_some() {
                rep.violate(&format!("{sig}|limit-turned-into-other-error"), format!("L4 the unlimited search succeeds but under '{expect_msg}' the error is: {e}"), replay);
                return None;
            }
            // the unlimited search fails the same way (e.g. no path): counts as "returned"
            Some(true)
        }
    }
}

fn monotone(rep: &mut Report, oks: &[(u64, bool)], kind: &str, alg: &Alg, replay_base: &Value) {
    let mut seen_ok: Option<u64> = None;
    for (l, ok) in oks {
        if *ok && seen_ok.is_none() {
            seen_ok = Some(*l);
        }
        if !*ok {
            if let Some(l0) = seen_ok {
                rep.violate(&format!("C10|{kind}|{}|success-not-monotone", alg.family()), format!("L6 succeeded with limit {l0} but was stopped with the larger limit {l}"), || replay_base.clone());
                return;
            }
        }
    }
    if seen_ok.is_none() && !oks.is_empty() {
        rep.violate(&format!("C10|{kind}|{}|never-succeeds", alg.family()), format!("L6 no limit up to {} let the search finish although the unlimited search does", oks.last().unwrap().0), || replay_base.clone());
    }
}

#[allow(clippy::too_many_arguments)]
fn runtime_case(
    rng: &mut Rng,
    rep: &mut Report,
    alg: &Alg,
    si: &mut SearchInstance,
    od: Od,
    reverse: bool,
    budget: crate::hooks::Budget,
    replay_base: &Value,
    r0: &Option<(Vec<Vec<usize>>, Vec<Vec<(usize, usize, usize)>>)>,
    need_pops: u64,
) {
    let fam = alg.family();
    // (0) a budget that cannot expire (the ways of writing "no limit" as a duration): the answer is the unlimited one
    {
        rep.eval();
        let (label, limit) = match need_pops % 4 {
            0 => ("Duration::MAX", std::time::Duration::MAX),
            1 => ("u64::MAX seconds", std::time::Duration::from_secs(u64::MAX)),
            2 => ("i64::MAX seconds", std::time::Duration::from_secs(i64::MAX as u64)),
            _ => ("a million years", std::time::Duration::from_secs(31_557_600_000_000)),
        };
        si.termination_model = Arc::new(routee_compass_core::model::termination::termination_model::TerminationModel::QueryRuntimeLimit { limit, frequency: 1 + need_pops % 3 });
        let (out, ctx) = run_once(alg, si, od, reverse, budget, false);
        let replay = || {
            let mut r = replay_base.clone();
            r["limit"] = json!({"runtime": label, "frequency": 1 + need_pops % 3});
            r
        };
        if check_outcome(rep, out, &ctx, r0, &format!("C10|runtime|{fam}|budget-that-cannot-expire"), "runtime limit", replay) == Some(false) {
            rep.violate(&format!("C10|runtime|{fam}|budget-that-cannot-expire|terminated"), format!("L3 a budget of {label} expired"), replay);
        } else {
            rep.count("runtime_budgets_that_cannot_expire_confirmed", 1);
        }
    }
    // (a) exhausted budget: stops at the first scheduled check
    for f in [1u64, 2, 3, 7] {
        rep.eval();
        si.termination_model = Arc::new(TermCfg::Runtime { limit_ms: 0, frequency: f }.build());
        let (out, ctx) = run_once(alg, si, od, reverse, budget, false);
        let replay = || {
            let mut r = replay_base.clone();
            r["limit"] = json!({"runtime_ms": 0, "frequency": f});
            r
        };
        match out {
            Ok(Outcome::Terminated(m)) => {
                if !m.contains("runtime limit") {
                    rep.violate(&format!("C10|runtime|{fam}|message-does-not-name-limit"), format!("L4 message '{m}'"), replay);
                    continue;
                }
                let pops = ctx.events.iter().filter(|e| matches!(e, Ev::Pop { .. })).count();
                if pops > 0 || !matches!(ctx.events.last(), Some(Ev::LoopTop { .. })) {
                    rep.violate(&format!("C10|runtime|{fam}|work-after-exhausted-budget"), format!("L3 {pops} expansions happened with a zero time budget"), replay);
                    continue;
                }
            }
            Ok(Outcome::Ok(_)) | Ok(Outcome::OtherErr(_)) => {
                // only possible without a violation if the search needs no loop at all (source == target)
                if need_pops > 0 {
                    rep.violate(&format!("C10|runtime|{fam}|exhausted-budget-not-enforced"), "L3 the search ran to its end with a zero time budget".into(), replay);
                    continue;
                }
            }
            Err(_) => continue,
        }
        rep.count("runtime_zero_budget_runs", 1);
    }
    // (b) budget expiring mid-search: traversal model sleeps per edge
    if need_pops < 3 {
        return;
    }
    rep.eval();
    let f = rng.urange(1, 7) as u64;
    let limit_ms = rng.urange(10, 30) as u64;
    let inner = si.traversal_model.clone();
    si.traversal_model = Arc::new(SlowTraversal { inner: inner.clone(), sleep: Duration::from_micros(rng.urange(1000, 2000) as u64) });
    si.termination_model = Arc::new(TermCfg::Runtime { limit_ms, frequency: f }.build());
    let (out, ctx) = run_once(alg, si, od, reverse, budget, true);
    si.traversal_model = inner;
    let replay = || {
        let mut r = replay_base.clone();
        r["limit"] = json!({"runtime_ms": limit_ms, "frequency": f, "sleep_per_edge": "1-2ms"});
        r
    };
    let limit = Duration::from_millis(limit_ms);
    // every scheduled check that was passed (the search continued) must have seen less than the budget. the search takes
    // its start time before its first loop-top event and makes the check after the loop-top event of that iteration, so
    // (stamp of this loop top - stamp of the search's first loop top) is a LOWER bound of the elapsed time the check saw:
    // machine load can only make the real figure larger. 1 ms margin for clock granularity
    let slack = Duration::from_millis(1);
    let n = ctx.loop_times.len();
    let mut base = Duration::ZERO;
    for (i, (it, t)) in ctx.loop_times.iter().enumerate() {
        if *it == 0 {
            base = *t;
        }
        let continued = i + 1 < n; // another loop top followed within the same context
        if it % f == 0 && continued && t.saturating_sub(base) > limit + slack {
            // the loop top that follows belongs to the same search only if iterations increased
            if ctx.loop_times[i + 1].0 == it + 1 {
                rep.violate(&format!("C10|runtime|{fam}|scheduled-check-passed-after-budget"), format!("L3 the check at iteration {it} ({:?} after start) let the search continue with a budget of {limit_ms} ms", t), replay);
                return;
            }
        }
    }
    match out {
        Ok(Outcome::Terminated(m)) => {
            let (it, t) = ctx.loop_times.last().copied().unwrap_or((0, Duration::ZERO));
            if !m.contains("runtime limit") {
                rep.violate(&format!("C10|runtime|{fam}|message-does-not-name-limit"), format!("L4 message '{m}'"), replay);
                return;
            }
            if it % f != 0 {
                rep.violate(&format!("C10|runtime|{fam}|stopped-off-schedule"), format!("L3 stopped at iteration {it} with check frequency {f}"), replay);
                return;
            }
            // the search's own clock starts after the harness clock and its check happens after the loop-top event, so
            // the time at which the call RETURNED bounds the elapsed time the check saw from above: a return before the
            // budget means the search stopped early (the loop-top timestamp itself can precede the check by microseconds)
            let _ = t;
            if ctx.returned_after < limit {
                rep.violate(&format!("C10|runtime|{fam}|stopped-before-budget"), format!("L3 returned {:?} after start with a budget of {limit_ms} ms", ctx.returned_after), replay);
                return;
            }
            if !matches!(ctx.events.last(), Some(Ev::LoopTop { .. })) {
                rep.violate(&format!("C10|runtime|{fam}|work-after-termination"), "L7 events follow the terminating loop top".into(), replay);
                return;
            }
            rep.count("runtime_midsearch_terminations", 1);
            rep.nontrivial(hash_str(&format!("rt{}|{}|{f}|{limit_ms}|{it}", fam, need_pops)));
            rep.sample(|| json!({"algorithm": alg.name(), "runtime_limit_ms": limit_ms, "frequency": f, "terminated_at_iteration": it, "elapsed_ms": t.as_millis() as u64, "unlimited_expansions": need_pops}));
        }
        Ok(Outcome::Ok(r)) => {
            if let Some(r0) = r0 {
                if canon(&r) != *r0 {
                    rep.violate(&format!("C10|runtime|{fam}|result-differs-from-unlimited"), "L5 result under a runtime limit differs from the unlimited result".into(), replay);
                    return;
                }
            }
            rep.count("runtime_midsearch_completed_in_time", 1);
        }
        Ok(Outcome::OtherErr(e)) => {
            if r0.is_some() {
                rep.violate(&format!("C10|runtime|{fam}|limit-turned-into-other-error"), format!("L4 {e}"), replay);
            }
        }
        Err(_) => {}
    }
}


/// application-level slice: the limits given in the [termination] section of the TOML, observed in the responses
fn app_case(case_no: usize, rng: &mut Rng, rep: &mut Report) {
    use crate::appgen::{build_app, AppSpec};
    use crate::hooks::catch;
    let mut p = WorldParams::default();
    p.net.min_v = 6;
    p.net.max_v = 30;
    p.net.metric = true;
    p.allow_turn_delay = false;
    p.surcharges = false;
    let mut world = gen_world(rng, &p);
    for (_, r) in world.cost.vehicle_rates.iter_mut() {
        if let routee_compass_core::model::cost::vehicle::vehicle_cost_rate::VehicleCostRate::Combined(_) = r {
            *r = routee_compass_core::model::cost::vehicle::vehicle_cost_rate::VehicleCostRate::Factor { factor: 2.5 };
        }
    }
    let alg = gen_plain_alg(rng, false);
    let net = world.net.clone();
    let mut queries = vec![];
    for i in 0..6 {
        if let Od::Vertex(o, Some(d)) = gen_vertex_od(rng, &net, true) {
            if o != d {
                queries.push(json!({"qid": format!("t{case_no}q{i}"), "origin_vertex": o, "destination_vertex": d}));
            }
        }
    }
    if queries.is_empty() {
        return;
    }
    let build = |term: TermCfg, world: &mut crate::world::World| {
        world.term = term;
        let mut spec = AppSpec::basic(world.clone(), alg.clone());
        spec.parallelism = 2;
        catch(|| build_app(&spec, "c10"))
    };
    let unlimited = match build(TermCfg::None, &mut world) {
        Ok(Ok(b)) => b,
        _ => {
            rep.inconclusive("the unlimited application could not be built".into());
            return;
        }
    };
    let base = match catch(|| unlimited.app.run(queries.clone(), None)) {
        Ok(Ok(v)) => v,
        _ => {
            rep.count("app_reference_run_failed_(C12)", 1);
            return;
        }
    };
    let by_qid = |v: &[Value], qid: &str| v.iter().find(|r| r["request"]["qid"].as_str() == Some(qid)).cloned();
    let need_max = base.iter().filter_map(|r| r["iterations"].as_u64()).max().unwrap_or(4);
    let tree_max = base.iter().filter_map(|r| r["tree_size_count"].as_u64()).max().unwrap_or(4);
    // limits around what the queries need, in increasing order (for the monotonicity clause)
    let mut settings: Vec<(String, TermCfg, Vec<String>)> = vec![];
    let mut its: Vec<u64> = vec![0, rng.urange(1, need_max.max(2) as usize) as u64, need_max / 2 + 1, need_max + 3];
    its.sort();
    its.dedup();
    for l in its {
        settings.push((format!("iterations={l}"), TermCfg::Iterations(l), vec![format!("exceeded iteration limit of {l}")]));
    }
    let sz = rng.urange(1, tree_max.max(2) as usize + 3);
    settings.push((format!("solution_size={sz}"), TermCfg::SolutionSize(sz), vec![format!("exceeded solution size limit of {sz}")]));
    let (ci, cs) = (rng.urange(1, need_max.max(2) as usize + 3) as u64, rng.urange(1, tree_max.max(2) as usize + 3));
    settings.push((format!("combined(iterations={ci},solution_size={cs})"), TermCfg::Combined(vec![TermCfg::Iterations(ci), TermCfg::SolutionSize(cs)]), vec![format!("exceeded iteration limit of {ci}"), format!("exceeded solution size limit of {cs}")]));
    let freq = *rng.pick(&[1u64, 2, 3]);
    settings.push((format!("runtime=0,frequency={freq}"), TermCfg::Runtime { limit_ms: 0, frequency: freq }, vec!["exceeded runtime limit of".to_string()]));
    let mut iter_ok: std::collections::BTreeMap<String, Vec<(u64, bool)>> = Default::default();
    for (name, term, texts) in settings {
        let kind = name.split(['=', '(']).next().unwrap_or("").to_string();
        let limited = match build(term.clone(), &mut world) {
            Ok(Ok(b)) => b,
            Ok(Err(e)) => {
                rep.violate(&format!("C10|app|{kind}|configuration-refused"), format!("a well-formed [termination] section was refused: {}", e.lines().next().unwrap_or("")), || json!({"termination": name, "toml": e}));
                continue;
            }
            Err(pm) => {
                rep.violate(&format!("C10|app|{kind}|{}", crate::hooks::panic_sig(&pm)), pm, || json!({"termination": name}));
                continue;
            }
        };
        let got = match catch(|| limited.app.run(queries.clone(), None)) {
            Ok(Ok(v)) => v,
            Ok(Err(e)) => {
                rep.violate(&format!("C10|app|{kind}|run-returns-err"), format!("run() failed under {name}: {e}"), || json!({"toml": limited.toml, "batch": queries}));
                continue;
            }
            Err(pm) => {
                rep.violate(&format!("C10|app|{kind}|{}", crate::hooks::panic_sig(&pm)), pm, || json!({"toml": limited.toml, "batch": queries}));
                continue;
            }
        };
        for q in &queries {
            rep.eval();
            let qid = q["qid"].as_str().unwrap_or("");
            let (u, r) = match (by_qid(&base, qid), by_qid(&got, qid)) {
                (Some(u), Some(r)) => (u, r),
                _ => continue,
            };
            let replay = || json!({"termination": name, "toml": limited.toml, "query": q, "unlimited_response": u, "limited_response": r});
            let u_err = u.get("error").map(|e| e.to_string());
            match r.get("error").map(|e| e.to_string()) {
                None => {
                    // L5 an answer under a limit is the unlimited answer
                    if u_err.is_some() {
                        rep.violate(&format!("C10|app|{kind}|answer-where-unlimited-fails"), format!("L5 {name}: a route was returned, the unlimited run says {}", u_err.clone().unwrap_or_default().chars().take(200).collect::<String>()), replay);
                        continue;
                    }
                    if r["route"]["path"] != u["route"]["path"] {
                        rep.violate(&format!("C10|app|{kind}|result-differs-from-unlimited"), format!("L5 {name}: route {} differs from the unlimited route {}", r["route"]["path"], u["route"]["path"]), replay);
                        continue;
                    }
                    // L3 a zero runtime budget is exhausted at every scheduled check: a search long enough to reach
                    // two of them cannot come back with an answer
                    if let TermCfg::Runtime { limit_ms: 0, frequency } = &term {
                        if u["iterations"].as_u64().unwrap_or(0) >= 2 * frequency + 2 {
                            rep.violate("C10|app|runtime|exhausted-budget-not-enforced", format!("L3 {name}: the search ran {} iterations and returned a route", u["iterations"]), replay);
                            continue;
                        }
                    }
                    rep.count("app_answers_identical_to_unlimited", 1);
                    if let TermCfg::Iterations(l) = &term {
                        iter_ok.entry(qid.to_string()).or_default().push((*l, true));
                    }
                }
                Some(text) => {
                    let limit_named = texts.iter().any(|t| text.contains(t.as_str()));
                    let terminated = text.contains("terminated");
                    if terminated && limit_named {
                        rep.count("app_terminated_responses_naming_the_limit", 1);
                        rep.seen("app_termination_texts", texts.iter().find(|t| text.contains(t.as_str())).map(|t| t.split(" of ").next().unwrap_or("").to_string()).unwrap_or_default());
                        if u_err.is_none() && u["iterations"].as_u64().unwrap_or(0) >= 3 {
                            rep.nontrivial(hash_str(&format!("app|{}|{qid}|{name}", net.ne())));
                            rep.sample(|| json!({"level": "application", "termination": name, "query": q, "error": text.chars().take(160).collect::<String>(), "unlimited_iterations": u["iterations"], "unlimited_route": u["route"]["path"]}));
                        }
                        if let TermCfg::Iterations(l) = &term {
                            iter_ok.entry(qid.to_string()).or_default().push((*l, false));
                        }
                    } else if u_err.as_deref() == Some(text.as_str()) || (u_err.is_some() && text.contains("no path")) {
                        // the query fails in the same way without any limit (unreachable pair)
                        rep.count("app_same_error_as_unlimited", 1);
                    } else if terminated {
                        rep.violate(&format!("C10|app|{kind}|termination-does-not-name-the-limit"), format!("L4 {name}: {}", text.chars().take(300).collect::<String>()), replay);
                    } else {
                        rep.violate(&format!("C10|app|{kind}|limit-reported-as-another-error"), format!("L4 {name}: the unlimited run {} but the limited run says {}", if u_err.is_some() { "fails differently" } else { "succeeds" }, text.chars().take(300).collect::<String>()), replay);
                    }
                }
            }
        }
    }
    // L6 success is monotone in the iteration limit
    for (qid, mut v) in iter_ok {
        v.sort();
        if let Some(w) = v.windows(2).find(|w| w[0].1 && !w[1].1) {
            rep.violate("C10|app|iterations|success-not-monotone", format!("L6 query {qid} succeeds with limit {} and is terminated with limit {}", w[0].0, w[1].0), || json!({"query": qid, "outcomes": v}));
        }
    }
}


/// a configured limit, as the generator knows it (seconds for runtime budgets)
#[derive(Clone, Debug)]
enum Lim {
    Runtime { secs: u64, text: String, freq: u64 },
    Iter(u64),
    Size(u64),
    Comb(Vec<Lim>),
}

impl Lim {
    fn gen(rng: &mut Rng, depth: usize) -> Lim {
        match rng.below(if depth >= 2 { 3 } else { 4 }) {
            0 => {
                // H:MM:SS with any hour count (the builder's text form), budgets from zero to several days
                let h = match rng.below(4) {
                    0 => 0,
                    1 => rng.urange(1, 3) as u64,
                    2 => rng.urange(1, 23) as u64,
                    _ => rng.urange(24, 120) as u64,
                };
                let m = if rng.chance(0.3) { 0 } else { rng.below(60) as u64 };
                let sc = if rng.chance(0.3) { 0 } else { rng.below(60) as u64 };
                let text = if rng.chance(0.5) { format!("{h}:{m:02}:{sc:02}") } else { format!("{h:02}:{m:02}:{sc:02}") };
                Lim::Runtime { secs: h * 3600 + m * 60 + sc, text, freq: *rng.pick(&[1u64, 1, 2, 3, 7, 10, 100]) }
            }
            1 => Lim::Iter(if rng.chance(0.1) { 0 } else { rng.urange(1, 100_000) as u64 }),
            2 => Lim::Size(if rng.chance(0.1) { 0 } else { rng.urange(1, 100_000) as u64 }),
            _ => Lim::Comb((0..rng.urange(1, 4)).map(|_| Lim::gen(rng, depth + 1)).collect()),
        }
    }
    fn json(&self) -> Value {
        match self {
            Lim::Runtime { text, freq, .. } => json!({"type": "query_runtime", "limit": text, "frequency": freq}),
            Lim::Iter(n) => json!({"type": "iterations", "limit": n}),
            Lim::Size(n) => json!({"type": "solution_size", "limit": n}),
            Lim::Comb(v) => json!({"type": "combined", "models": v.iter().map(|l| l.json()).collect::<Vec<_>>()}),
        }
    }
    fn leaves<'a>(&'a self, out: &mut Vec<&'a Lim>) {
        match self {
            Lim::Comb(v) => v.iter().for_each(|l| l.leaves(out)),
            other => out.push(other),
        }
    }
    /// the leaves that stop a search `elapsed_ms` old with `size` tree entries at loop top `iter`
    fn exceeded<'a>(&'a self, elapsed_ms: u64, size: u64, iter: u64, out: &mut Vec<&'a Lim>) {
        match self {
            Lim::Runtime { secs, freq, .. } => {
                if iter % freq == 0 && elapsed_ms > secs * 1000 {
                    out.push(self)
                }
            }
            Lim::Iter(n) => {
                if iter + 1 > *n {
                    out.push(self)
                }
            }
            Lim::Size(n) => {
                if size > *n {
                    out.push(self)
                }
            }
            Lim::Comb(v) => v.iter().for_each(|l| l.exceeded(elapsed_ms, size, iter, out)),
        }
    }
}

/// "[+D.]H:MM:SS.mmm" as the explanation prints a budget -> milliseconds
fn parse_hhmmss_ms(t: &str) -> Option<u64> {
    let (days, rest) = match t.strip_prefix('+') {
        Some(r) => {
            let (d, rest) = r.split_once('.')?;
            (d.parse::<u64>().ok()?, rest)
        }
        None => (0, t),
    };
    let (hms, ms) = rest.split_once('.')?;
    let parts: Vec<&str> = hms.split(':').collect();
    if parts.len() != 3 {
        return None;
    }
    let (h, m, sc) = (parts[0].parse::<u64>().ok()?, parts[1].parse::<u64>().ok()?, parts[2].parse::<u64>().ok()?);
    Some((((days * 24 + h) * 60 + m) * 60 + sc) * 1000 + ms.parse::<u64>().ok()?)
}

/// limits as configured: random [termination] sections go through the real TerminationModelBuilder and the built
/// model is probed with back-dated start instants (a budget of minutes or hours cannot be waited for). the budget
/// the model enforces - and names when it stops a search - must be the one written in the configuration.
fn config_case(rng: &mut Rng, rep: &mut Report) {
    use crate::hooks::{catch, panic_sig};
    use routee_compass::app::compass::config::termination_model_builder::TerminationModelBuilder;
    use std::time::Instant;
    rep.eval();
    let lim = Lim::gen(rng, 0);
    let cfg = lim.json();
    let model = match catch(|| TerminationModelBuilder::build(&cfg, None)) {
        Ok(Ok(m)) => m,
        Ok(Err(e)) => {
            rep.violate("C10|TerminationModelBuilder|well-formed-section-refused", format!("{e}"), || json!({"termination": cfg}));
            return;
        }
        Err(pm) => {
            rep.violate(&format!("C10|TerminationModelBuilder|{}", panic_sig(&pm)), pm, || json!({"termination": cfg}));
            return;
        }
    };
    let mut leaves = vec![];
    lim.leaves(&mut leaves);
    // probe points: ages around every configured budget (half a second off any whole second, so that the microseconds
    // between back-dating and the model's own clock reading cannot flip a verdict), including the ages at which a
    // mis-weighted hour or minute field would fire; sizes and iteration numbers around the configured counts
    let mut ages: Vec<u64> = vec![500];
    let mut sizes: Vec<u64> = vec![0, rng.urange(0, 200_000) as u64];
    let mut iters: Vec<u64> = vec![0, rng.urange(0, 200_000) as u64];
    for l in &leaves {
        match l {
            Lim::Runtime { secs, freq, .. } => {
                for a in [secs / 3600, secs / 60, secs / 2, secs.saturating_sub(1), *secs, secs + 1, secs * 2 + 5] {
                    ages.push(a * 1000 + 500);
                }
                iters.extend([*freq, freq * 3, freq * 3 + 1, freq.saturating_sub(1)]);
            }
            Lim::Iter(n) => iters.extend([n.saturating_sub(2), n.saturating_sub(1), *n, n + 1]),
            Lim::Size(n) => sizes.extend([n.saturating_sub(1), *n, n + 1, n + 50]),
            Lim::Comb(_) => {}
        }
    }
    let has_runtime = leaves.iter().any(|l| matches!(l, Lim::Runtime { .. }));
    let mut probes = 0u64;
    for _ in 0..24 {
        let age = *rng.pick(&ages);
        let size = *rng.pick(&sizes);
        let iter = *rng.pick(&iters);
        // an instant older than the machine's uptime cannot be formed: such a probe is skipped, not judged
        let Some(start) = Instant::now().checked_sub(Duration::from_millis(age)) else {
            rep.count("configured_limit_probes_skipped_(older_than_uptime)", 1);
            continue;
        };
        probes += 1;
        let mut want = vec![];
        lim.exceeded(age, size, iter, &mut want);
        let replay = || json!({"termination": cfg, "search_age_ms": age, "tree_size": size, "loop_top": iter});
        let got = match catch(|| model.terminate_search(&start, size as usize, iter)) {
            Ok(Ok(b)) => b,
            Ok(Err(e)) => {
                rep.violate("C10|configured-limit|terminate_search-error", format!("{e}"), replay);
                return;
            }
            Err(pm) => {
                rep.violate(&format!("C10|configured-limit|{}", panic_sig(&pm)), pm, replay);
                return;
            }
        };
        if got != !want.is_empty() {
            let kind = if got { "stops-inside-every-configured-limit" } else { "passes-an-exceeded-limit" };
            let which = if want.is_empty() { leaves.iter().map(|l| format!("{l:?}")).collect::<Vec<_>>().join(", ") } else { want.iter().map(|l| format!("{l:?}")).collect::<Vec<_>>().join(", ") };
            rep.violate(&format!("C10|configured-limit|{kind}"), format!("a search {age} ms old with {size} tree entries at loop top {iter}: terminate_search = {got}; configured {which}"), replay);
            return;
        }
        // the explicit error names the limits that were hit, with the configured values
        match model.test(&start, size as usize, iter) {
            Ok(()) if want.is_empty() => {}
            Err(TerminationModelError::QueryTerminated(msg)) if !want.is_empty() => {
                for l in &want {
                    let named = match l {
                        Lim::Runtime { secs, .. } => msg.split("exceeded runtime limit of ").skip(1).any(|t| parse_hhmmss_ms(t.split(',').next().unwrap_or("").trim()) == Some(secs * 1000)),
                        Lim::Iter(n) => msg.split(", ").any(|t| t.trim() == format!("exceeded iteration limit of {n}")),
                        Lim::Size(n) => msg.split(", ").any(|t| t.trim() == format!("exceeded solution size limit of {n}")),
                        Lim::Comb(_) => true,
                    };
                    if !named {
                        rep.violate("C10|configured-limit|explanation-does-not-name-the-limit", format!("stopped by {l:?} but the error reads '{msg}'"), replay);
                        return;
                    }
                }
                rep.count("configured_limit_explanations_confirmed", 1);
            }
            other => {
                rep.violate("C10|configured-limit|test-disagrees-with-terminate_search", format!("terminate_search = {got}, test() = {:?}", other.map_err(|e| e.to_string())), replay);
                return;
            }
        }
    }
    rep.count("configured_limit_probes", probes);
    rep.seen("configured_limit_kinds", match &lim {
        Lim::Runtime { secs, .. } => format!("query_runtime {}", if *secs == 0 { "0" } else if *secs < 3600 { "<1h" } else if *secs < 86400 { "hours" } else { "days" }),
        Lim::Iter(_) => "iterations".into(),
        Lim::Size(_) => "solution_size".into(),
        Lim::Comb(v) => format!("combined of {}", v.len()),
    });
    if has_runtime && probes > 0 {
        rep.nontrivial(hash_str(&cfg.to_string()));
    }
}

pub fn run(tier: Tier, seed: u64) -> MonOut {
    let n = tier.n(8_000, 300_000);
    let n_timed = tier.n(640, 12_000);
    let mut rep = par_cases(seed, n, |_i, rng, rep| case(tier, rng, rep, false));
    let r2 = par_cases(seed ^ 0x10, n_timed, |_i, rng, rep| case(tier, rng, rep, true));
    rep.merge(r2);
    // application-level slice: limits from the TOML, verdicts from the responses
    let r3 = par_cases(seed ^ 0x20, tier.n(160, 4_000), |i, rng, rep| app_case(i, rng, rep));
    rep.merge(r3);
    // limits as configured: the builder's text forms against back-dated clocks
    let r4 = par_cases(seed ^ 0x30, tier.n(20_000, 600_000), |_i, rng, rep| config_case(rng, rep));
    rep.merge(r4);
    MonOut {
        report: rep,
        rule: "generated networks x plain searches (Dijkstra / A* any weight factor, forward/reverse, with/without destination) and k-shortest-path searches (each sub-search observed separately); per query an unlimited reference run, then sweeps of the iteration limit 0..need+3 and of the solution-size limit 0..tree+3 (all values when small, else ends + random interior), random combined limits, a zero runtime budget at check frequencies 1,2,3,7 and a 10..30 ms budget expiring mid-search (traversal model sleeping 1..2 ms per edge, frequency 1..7). observed through LoopTop/Pop/SearchEnd hook events (the error path exposes no counters). application-level slice: per generated world one unlimited application and seven limited ones ([termination] iterations x4 around the need, solution_size, combined, query_runtime 0 with frequency 1..3), the same six queries through each; a limited response is either the unlimited route or a 'terminated' error naming the configured limit, never another error, and success is monotone in the iteration limit. configured-limit slice: random [termination] sections (query_runtime H:MM:SS from 0 to 120 hours with frequency 1..100, iterations, solution_size, nested combined) through TerminationModelBuilder; the built model is probed (terminate_search, test) with start instants back-dated to ages around every configured budget (including budget/60 and budget/3600) and sizes / loop tops around the configured counts, against the generator's own reading of the section; the explanation must name the configured value. non-trivial = the unlimited search needs >= 3 expansions; distinct by (network, algorithm, od, direction) resp. (runtime setting, terminating iteration)".into(),
        assumptions: vec![
            "an 'expansion step' is a popped vertex; the tree is sampled at every loop top and at return".into(),
            "runtime verdicts are one-sided so that machine load cannot cause alarms: a stop must be on schedule and the call may not return before the budget (harness clock starts before the search's own), and a scheduled check may not be passed when more than the budget lies between the search's first loop-top stamp and this one (a lower bound of what the check saw)".into(),
            "identity with the unlimited result is exact (edge sequences and tree entries); the search is deterministic for a fixed instance".into(),
        ],
        floor: 200,
        exhaustive: false,
        explanation: "sampled queries with (near-)complete sweeps of the limit value per query".into(),
    }
}

//! one monitor per property.
use crate::report::Report;

pub struct MonOut {
    pub report: Report,
    pub rule: String,
    pub assumptions: Vec<String>,
    pub floor: u64,
    pub exhaustive: bool,
    pub explanation: String,
}

#[derive(Clone, Copy, Debug)]
pub struct Tier {
    pub thorough: bool,
}

impl Tier {
    /// pick a workload size by tier, scaled by VERIF_SCALE (float, default 1)
    pub fn n(&self, quick: usize, thorough: usize) -> usize {
        let base = if self.thorough { thorough } else { quick };
        let scale: f64 = std::env::var("VERIF_SCALE").ok().and_then(|s| s.parse().ok()).unwrap_or(1.0);
        ((base as f64) * scale).ceil().max(1.0) as usize
    }
}

pub mod c01;
pub mod c02;
pub mod c03;
pub mod c04;
pub mod c05;
pub mod c06;
pub mod c07;
pub mod c08;
pub mod c09;
pub mod c10;
pub mod c11;
pub mod c12;
pub mod c13;
pub mod c14;
pub mod c15;
pub mod c16;
pub mod c17;
pub mod c18;
pub mod c19;
pub mod c20;

pub fn run(property: &str, tier: Tier, seed: u64) -> Option<MonOut> {
    let mut out = run_generated(property, tier, seed)?;
    // the configurations and the network that the repository ships, driven as they are (see shipped.rs)
    if let Some(text) = crate::shipped::rule_text(property) {
        if std::env::var("VERIF_NO_SHIPPED").is_err() {
            out.report.merge(crate::shipped::run(property, tier, seed));
            out.rule.push_str(&text);
        }
    }
    Some(out)
}

fn run_generated(property: &str, tier: Tier, seed: u64) -> Option<MonOut> {
    match property {
        "C01" => Some(c01::run(tier, seed)),
        "C02" => Some(c02::run(tier, seed)),
        "C03" => Some(c03::run(tier, seed)),
        "C04" => Some(c04::run(tier, seed)),
        "C05" => Some(c05::run(tier, seed)),
        "C06" => Some(c06::run(tier, seed)),
        "C07" => Some(c07::run(tier, seed)),
        "C08" => Some(c08::run(tier, seed)),
        "C09" => Some(c09::run(tier, seed)),
        "C10" => Some(c10::run(tier, seed)),
        "C11" => Some(c11::run(tier, seed)),
        "C12" => Some(c12::run(tier, seed)),
        "C13" => Some(c13::run(tier, seed)),
        "C14" => Some(c14::run(tier, seed)),
        "C15" => Some(c15::run(tier, seed)),
        "C16" => Some(c16::run(tier, seed)),
        "C17" => Some(c17::run(tier, seed)),
        "C18" => Some(c18::run(tier, seed)),
        "C19" => Some(c19::run(tier, seed)),
        "C20" => Some(c20::run(tier, seed)),
        _ => None,
    }
}

/// entry point of `verif worker ...` subprocesses (isolated workloads that may abort)
pub fn worker_main(args: &[String]) -> i32 {
    match args.first().map(|s| s.as_str()) {
        Some("C12") => c12::worker(&args[1..]),
        _ => 2,
    }
}

/// re-run one recorded case (a replay file written next to a VIOLATION line, or a bare query case)
pub fn replay_file(property: &str, path: &str) -> i32 {
    use crate::worldjson::QueryCase;
    let txt = match std::fs::read_to_string(path) {
        Ok(t) => t,
        Err(e) => {
            eprintln!("cannot read {path}: {e}");
            return 2;
        }
    };
    let v: serde_json::Value = match serde_json::from_str(&txt) {
        Ok(v) => v,
        Err(e) => {
            eprintln!("cannot parse {path}: {e}");
            return 2;
        }
    };
    let body = if v.get("replay").is_some() { &v["replay"] } else { &v };
    let qc = match QueryCase::from_json(body) {
        Some(q) => q,
        None => {
            println!("{path} does not hold a core-level query case; the recorded input is:\n{}", serde_json::to_string_pretty(body).unwrap_or_default());
            return 2;
        }
    };
    let si = match qc.build() {
        Ok(s) => s,
        Err(e) => {
            eprintln!("cannot build the case: {e}");
            return 2;
        }
    };
    let mut rep = Report::new();
    match property {
        "C01" => c01::check_query(&qc, &si, &mut rep),
        "C03" => c03::check_query(&qc, &si, &mut rep),
        "C04" => c04::check_query(&qc, &si, &mut rep),
        "C13" => c13::check_query(&qc, &si, &mut rep),
        _ => {
            eprintln!("property {property} has no single-case replay; see the replay file for the recorded input");
            return 2;
        }
    }
    for v in &rep.violations {
        println!("VIOLATION property={property} replay={path}\n  signature: {}\n  {}", v.signature, v.message);
    }
    if rep.violations.is_empty() {
        println!("replay of {path}: no violation");
        0
    } else {
        1
    }
}

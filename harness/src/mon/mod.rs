//! one monitor per property.
use crate::report::Report;

pub struct MonOut {
    pub report: Report,
    pub rule: String,
    pub assumptions: Vec<String>,
    pub floor: u64,
    pub exhaustive: bool,
    pub explanation: String,
}

#[derive(Clone, Copy, Debug)]
pub struct Tier {
    pub thorough: bool,
}

impl Tier {
    /// pick a workload size by tier, scaled by VERIF_SCALE (float, default 1)
    pub fn n(&self, quick: usize, thorough: usize) -> usize {
        let base = if self.thorough { thorough } else { quick };
        let scale: f64 = std::env::var("VERIF_SCALE").ok().and_then(|s| s.parse().ok()).unwrap_or(1.0);
        ((base as f64) * scale).ceil().max(1.0) as usize
    }
}

pub mod c01;
pub mod c02;
pub mod c05;
pub mod c07;
pub mod c09;
pub mod c11;
pub mod c17;
pub mod c18;

pub fn run(property: &str, tier: Tier, seed: u64) -> Option<MonOut> {
    match property {
        "C01" => Some(c01::run(tier, seed)),
        "C02" => Some(c02::run(tier, seed)),
        "C05" => Some(c05::run(tier, seed)),
        "C07" => Some(c07::run(tier, seed)),
        "C09" => Some(c09::run(tier, seed)),
        "C11" => Some(c11::run(tier, seed)),
        "C17" => Some(c17::run(tier, seed)),
        "C18" => Some(c18::run(tier, seed)),
        _ => None,
    }
}

/// entry point of `verif worker ...` subprocesses (isolated workloads that may abort)
pub fn worker_main(_args: &[String]) -> i32 {
    2
}

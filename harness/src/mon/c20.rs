//! C20 — every output format renders the same route, with geometry in edge order.
use super::{MonOut, Tier};
use crate::appgen::{build_app, edge_geometry, silence_stderr, uuid_for, AppSpec, OutputPlugin};
use crate::hooks::{catch, panic_sig, with_ctx};
use crate::par::par_cases;
use crate::report::Report;
use crate::rng::{hash_str, Rng};
use crate::run::{gen_plain_alg, step_budget, Alg, KTerm, Sim};
use crate::world::{gen_world, WorldParams};
use geo::{Geometry, LineString, MultiLineString};
use routee_compass::app::compass::search_orientation::SearchOrientation;
use routee_compass::plugin::output::default::summary::plugin::SummaryOutputPlugin;
use routee_compass::plugin::output::default::traversal::plugin::TraversalPlugin;
use routee_compass::plugin::output::default::traversal::traversal_output_format::TraversalOutputFormat;
use routee_compass::plugin::output::default::uuid::plugin::UUIDOutputPlugin;
use routee_compass::plugin::output::output_plugin::OutputPlugin as OutputPluginTrait;
use serde_json::{json, Value};
use wkt::TryFromWkt;

const FORMATS: [(&str, TraversalOutputFormat); 5] = [
    ("edge_id", TraversalOutputFormat::EdgeId),
    ("json", TraversalOutputFormat::Json),
    ("geo_json", TraversalOutputFormat::GeoJson),
    ("wkt", TraversalOutputFormat::Wkt),
    ("wkb", TraversalOutputFormat::Wkb),
];

fn hex_to_bytes(s: &str) -> Option<Vec<u8>> {
    if s.len() % 2 != 0 {
        return None;
    }
    (0..s.len()).step_by(2).map(|i| u8::from_str_radix(&s[i..i + 2], 16).ok()).collect()
}

fn coords_f64(pts: &[(f32, f32)]) -> Vec<(f64, f64)> {
    pts.iter().map(|(x, y)| (*x as f64, *y as f64)).collect()
}

fn ls_coords(l: &LineString<f64>) -> Vec<(f64, f64)> {
    l.0.iter().map(|c| (c.x, c.y)).collect()
}

fn geojson_coords(g: &Value) -> Option<Vec<(f64, f64)>> {
    g["coordinates"].as_array()?.iter().map(|p| Some((p[0].as_f64()?, p[1].as_f64()?))).collect()
}

/// check one rendered route against the route's edge sequence. returns Err(clause, detail)
fn check_route_render(spec: &AppSpec, fmt: &str, rendered: &Value, edges: &[usize], traversal_json: &Value) -> Result<(), (String, String)> {
    let expect_geom: Vec<(f64, f64)> = edges.iter().flat_map(|e| coords_f64(&edge_geometry(spec, *e))).collect();
    match fmt {
        "edge_id" => {
            let got: Option<Vec<usize>> = rendered.as_array().map(|a| a.iter().filter_map(|x| x.as_u64().map(|v| v as usize)).collect());
            if got.as_deref() != Some(edges) {
                return Err(("D1-edge-id-list".into(), format!("edge_id output {rendered} but the route is {edges:?}")));
            }
        }
        "json" => {
            if rendered != traversal_json {
                return Err(("D2-json-records".into(), format!("json output differs from the route's edge traversals: {} vs {}", rendered, traversal_json)));
            }
        }
        "geo_json" => {
            let feats = rendered["features"].as_array().ok_or(("D3-geojson-shape".to_string(), "no features array".to_string()))?;
            if feats.len() != edges.len() {
                return Err(("D3-geojson-feature-count".into(), format!("{} features for {} edges", feats.len(), edges.len())));
            }
            for (i, f) in feats.iter().enumerate() {
                if f["id"].as_u64() != Some(edges[i] as u64) {
                    return Err(("D3-geojson-feature-id".into(), format!("feature {i} has id {} but edge {} is at that position", f["id"], edges[i])));
                }
                if f["properties"] != traversal_json[i] {
                    return Err(("D3-geojson-properties".into(), format!("feature {i} properties differ from the edge traversal")));
                }
                let g = geojson_coords(&f["geometry"]).ok_or(("D3-geojson-shape".to_string(), "geometry without coordinates".to_string()))?;
                let want = coords_f64(&edge_geometry(spec, edges[i]));
                if g.len() != want.len() || g.iter().zip(&want).any(|(a, b)| (a.0 as f32) != (b.0 as f32) || (a.1 as f32) != (b.1 as f32)) {
                    return Err(("D3-geojson-geometry".into(), format!("feature {i} geometry {g:?} is not the stored geometry of edge {} {want:?}", edges[i])));
                }
            }
        }
        "wkt" => {
            let s = rendered.as_str().ok_or(("D4-wkt-shape".to_string(), "wkt output is not a string".to_string()))?;
            let l: LineString<f64> = LineString::try_from_wkt_str(s).map_err(|e| ("D4-wkt-parse".to_string(), format!("{e}")))?;
            let got = ls_coords(&l);
            if got.len() != expect_geom.len() || got.iter().zip(&expect_geom).any(|(a, b)| (a.0 as f32) != (b.0 as f32) || (a.1 as f32) != (b.1 as f32)) {
                return Err(("D4-wkt-geometry".into(), format!("wkt has {} points, concatenation of the stored geometries of {edges:?} has {}", got.len(), expect_geom.len())));
            }
        }
        "wkb" => {
            let s = rendered.as_str().ok_or(("D4-wkb-shape".to_string(), "wkb output is not a string".to_string()))?;
            let bytes = hex_to_bytes(s).ok_or(("D4-wkb-hex".to_string(), "wkb is not hexadecimal".to_string()))?;
            let g = wkb::wkb_to_geom(&mut bytes.as_slice()).map_err(|e| ("D4-wkb-parse".to_string(), format!("{e:?}")))?;
            match g {
                Geometry::LineString(l) => {
                    let got = ls_coords(&l);
                    if got != expect_geom {
                        return Err(("D4-wkb-geometry".into(), format!("wkb has {} points, concatenation of the stored geometries of {edges:?} has {}", got.len(), expect_geom.len())));
                    }
                }
                _ => return Err(("D4-wkb-shape".into(), "wkb is not a linestring".into())),
            }
        }
        _ => {}
    }
    Ok(())
}

fn check_tree_render(spec: &AppSpec, fmt: &str, rendered: &Value, tree_edges: &[usize]) -> Result<(), (String, String)> {
    let mut want = tree_edges.to_vec();
    want.sort();
    let n = tree_edges.len();
    let geom_key = |pts: &[(f64, f64)]| format!("{:?}", pts);
    let mut want_geoms: Vec<String> = tree_edges.iter().map(|e| geom_key(&coords_f64(&edge_geometry(spec, *e)))).collect();
    want_geoms.sort();
    match fmt {
        "edge_id" => {
            let mut got: Vec<usize> = rendered.as_array().map(|a| a.iter().filter_map(|x| x.as_u64().map(|v| v as usize)).collect()).unwrap_or_default();
            got.sort();
            if got != want {
                return Err(("D6-tree-edge-ids".into(), format!("{} ids for a tree of {n} branches", got.len())));
            }
        }
        "json" => {
            let mut got: Vec<usize> = rendered.as_array().map(|a| a.iter().filter_map(|b| b["edge_traversal"]["edge_id"].as_u64().map(|v| v as usize)).collect()).unwrap_or_default();
            got.sort();
            if got != want {
                return Err(("D6-tree-json".into(), format!("{} branches rendered for a tree of {n}", got.len())));
            }
        }
        "geo_json" => {
            let feats = rendered["features"].as_array().cloned().unwrap_or_default();
            let mut got: Vec<usize> = feats.iter().filter_map(|f| f["id"].as_u64().map(|v| v as usize)).collect();
            got.sort();
            if got != want {
                return Err(("D6-tree-geojson".into(), format!("{} features for a tree of {n}", got.len())));
            }
        }
        "wkt" => {
            let s = rendered.as_str().unwrap_or("");
            if n == 0 {
                return Ok(());
            }
            let m: MultiLineString<f64> = MultiLineString::try_from_wkt_str(s).map_err(|e| ("D6-tree-wkt-parse".to_string(), format!("{e}")))?;
            if m.0.len() != n {
                return Err(("D6-tree-wkt".into(), format!("{} linestrings for a tree of {n}", m.0.len())));
            }
        }
        "wkb" => {
            let s = rendered.as_str().unwrap_or("");
            let bytes = hex_to_bytes(s).ok_or(("D6-tree-wkb-hex".to_string(), "not hexadecimal".to_string()))?;
            let g = wkb::wkb_to_geom(&mut bytes.as_slice()).map_err(|e| ("D6-tree-wkb-parse".to_string(), format!("{e:?}")))?;
            match g {
                Geometry::MultiLineString(m) => {
                    let mut got: Vec<String> = m.0.iter().map(|l| geom_key(&ls_coords(l))).collect();
                    got.sort();
                    if got != want_geoms {
                        return Err(("D6-tree-wkb".into(), format!("{} linestrings for a tree of {n}, or other geometries than the branches'", m.0.len())));
                    }
                }
                _ => return Err(("D6-tree-wkb".into(), "not a multilinestring".into())),
            }
        }
        _ => {}
    }
    Ok(())
}

fn case(tier: Tier, rng: &mut Rng, rep: &mut Report) {
    let mut wp = WorldParams::default();
    wp.net.max_v = if tier.thorough { 30 } else { 16 };
    wp.net.p_blocks = 0.1;
    wp.allow_turn_delay = rng.chance(0.3);
    wp.rich_cost = false;
    let world = gen_world(rng, &wp);
    let net = world.net.clone();
    let alg = if rng.chance(0.25) {
        Alg::SingleVia { k: rng.urange(2, 4), under: Box::new(Alg::Dijkstra), sim: Sim::AcceptAll, term: KTerm::Default }
    } else {
        gen_plain_alg(rng, false)
    };
    let mut spec = AppSpec::basic(world.clone(), alg.clone());
    spec.geom_points = rng.urange(2, 6);
    spec.geom_truncate = if rng.chance(0.3) { rng.urange(1, (net.ne() / 2).max(1)) } else { 0 };
    spec.gzip = rng.chance(0.2);
    spec.geom_repeat = rng.chance(0.4);
    spec.geom_single = rng.chance(0.3);
    spec.crlf = rng.fork(0xC2F).chance(0.3);
    spec.geom_reversed = rng.chance(0.3);
    spec.uuid_blanks = rng.chance(0.3);
    let app_route_fmt = rng.below(5);
    let app_tree_fmt = rng.below(6);
    let app_route_only_tree = app_tree_fmt < 5 && rng.chance(0.25);
    spec.output_plugins = vec![
        // the route format may be left out when a tree format is given (tree-only output)
        OutputPlugin::Traversal { route: if app_route_only_tree { None } else { Some(FORMATS[app_route_fmt].0.into()) }, tree: if app_tree_fmt < 5 { Some(FORMATS[app_tree_fmt].0.into()) } else { None } },
        OutputPlugin::Summary,
        OutputPlugin::Uuid,
    ];
    let base_replay = json!({"world": world.to_json(), "algorithm": alg.name(), "geometry_points": spec.geom_points, "geometry_rows_missing": spec.geom_truncate});
    let built = match catch(|| build_app(&spec, "c20")) {
        Ok(Ok(b)) => b,
        Ok(Err(e)) => {
            rep.violate("C20|CompassApp::try_from|load-error", format!("well-formed configuration refused: {}", e.lines().next().unwrap_or("")), || base_replay.clone());
            return;
        }
        Err(pm) => {
            rep.violate(&format!("C20|CompassApp::try_from|{}", panic_sig(&pm)), format!("panicked: {pm}"), || base_replay.clone());
            return;
        }
    };
    let geom_file = built.dir.join(format!("geometries.txt{}", if spec.gzip { ".gz" } else { "" }));
    let uuid_file = built.dir.join(format!("uuids.txt{}", if spec.gzip { ".gz" } else { "" }));
    let stored_rows = net.ne() - spec.geom_truncate;
    for _ in 0..4 {
        let o = rng.below(net.nv());
        let mut d = rng.below(net.nv());
        if d == o {
            d = (d + 1) % net.nv();
        }
        let with_dest = alg.is_ksp() || rng.chance(0.85);
        let query = if with_dest { json!({"origin_vertex": o, "destination_vertex": d, "tag": "q"}) } else { json!({"origin_vertex": o, "tag": "q"}) };
        let replay = || {
            let mut r = base_replay.clone();
            r["query"] = query.clone();
            r
        };
        // the search itself, once
        let k = match &alg {
            Alg::SingleVia { k, .. } => *k,
            _ => 1,
        };
        let (res, _) = with_ctx(step_budget(net.nv(), net.ne(), k), false, || built.app.search_app.run(&query, &SearchOrientation::Vertex));
        let result = match res {
            Ok(r) => r,
            Err(_) => continue,
        };
        let (sar, _si) = match &result {
            Ok(x) => x,
            Err(_) => {
                rep.count("search_errors", 1);
                continue;
            }
        };
        let routes: Vec<Vec<usize>> = sar.routes.iter().map(|r| r.iter().map(|e| e.edge_id.0).collect()).collect();
        let trees: Vec<Vec<usize>> = sar.trees.iter().map(|t| t.values().map(|b| b.edge_traversal.edge_id.0).collect()).collect();
        if routes.iter().any(|r| r.is_empty()) {
            continue;
        }
        let route_touches_missing = routes.iter().flatten().any(|e| *e >= stored_rows);
        let tree_touches_missing = trees.iter().flatten().any(|e| *e >= stored_rows);
        // (1) every format through the plugin directly, on the same search result
        let mut rendered_routes: Vec<(String, Value)> = vec![];
        for (fname, f) in FORMATS.iter() {
            rep.eval();
            // both outputs, or only one of them
            let (want_route, want_tree) = match rng.below(5) {
                3 => (false, true),
                4 => (true, false),
                _ => (true, true),
            };
            let plugin = match TraversalPlugin::from_file(&geom_file, if want_route { Some(*f) } else { None }, if want_tree { Some(*f) } else { None }) {
                Ok(p) => p,
                Err(e) => {
                    rep.violate("C20|TraversalPlugin::from_file|error", format!("geometry file refused: {e}"), replay);
                    return;
                }
            };
            let mut out = json!({"request": query});
            let pr = catch(|| plugin.process(&mut out, &result));
            let needs_geom = matches!(*fname, "geo_json" | "wkt" | "wkb");
            match pr {
                Err(pm) => {
                    rep.violate(&format!("C20|TraversalPlugin::process|{}", panic_sig(&pm)), format!("{fname}: panicked: {pm}"), replay);
                    continue;
                }
                Ok(Err(e)) => {
                    if needs_geom && ((want_route && route_touches_missing) || (want_tree && tree_touches_missing)) {
                        rep.count("missing_geometry_errors_confirmed", 1);
                    } else {
                        rep.violate(&format!("C20|TraversalPlugin::process|unexpected-error|{fname}"), format!("{fname}: {e}"), replay);
                    }
                    continue;
                }
                Ok(Ok(())) => {
                    if needs_geom && ((want_route && route_touches_missing) || (want_tree && tree_touches_missing)) {
                        rep.violate(&format!("C20|TraversalPlugin::process|missing-geometry-not-reported|{fname}"), format!("D5 {fname}: the result touches edges without stored geometry ({stored_rows} rows) but output was produced"), replay);
                        continue;
                    }
                }
            }
            // routes: null / object / array by count
            let route_objs: Vec<Value> = match (&out["route"], routes.len()) {
                (Value::Null, _) if !want_route => vec![],
                (other, n) if !want_route => {
                    rep.violate(&format!("C20|TraversalPlugin::process|route-shape|{fname}"), format!("no route format configured, {n} routes, but the route field is {}", &other.to_string().chars().take(120).collect::<String>()), replay);
                    continue;
                }
                (Value::Null, 0) => vec![],
                (v @ Value::Object(_), 1) => vec![v.clone()],
                (Value::Array(a), n) if n > 1 && a.len() == n => a.clone(),
                (other, n) => {
                    rep.violate(&format!("C20|TraversalPlugin::process|route-shape|{fname}"), format!("{n} routes but the route field is {}", &other.to_string().chars().take(120).collect::<String>()), replay);
                    continue;
                }
            };
            let mut ok = true;
            for (ri, ro) in route_objs.iter().enumerate() {
                let tj = serde_json::to_value(&sar.routes[ri]).unwrap_or(Value::Null);
                if let Err((clause, detail)) = check_route_render(&spec, fname, &ro["path"], &routes[ri], &tj) {
                    rep.violate(&format!("C20|route|{fname}|{clause}"), format!("route {ri}: {detail}"), replay);
                    ok = false;
                }
            }
            // trees
            let tree_vals: Vec<Value> = match (&out["tree"], trees.len()) {
                (Value::Null, _) if !want_tree => vec![],
                (Value::Null, 0) => vec![],
                (v, 1) => vec![v.clone()],
                (Value::Array(a), n) if n > 1 && a.len() == n => a.clone(),
                (other, n) => {
                    rep.violate(&format!("C20|TraversalPlugin::process|tree-shape|{fname}"), format!("{n} trees but the tree field is {}", &other.to_string().chars().take(120).collect::<String>()), replay);
                    continue;
                }
            };
            for (ti, tv) in tree_vals.iter().enumerate().filter(|_| want_tree) {
                if let Err((clause, detail)) = check_tree_render(&spec, fname, tv, &trees[ti]) {
                    rep.violate(&format!("C20|tree|{fname}|{clause}"), format!("tree {ti}: {detail}"), replay);
                    ok = false;
                }
            }
            if ok && !want_route {
                rep.count("tree_only_renderings_confirmed", 1);
            }
            if ok && want_route {
                rendered_routes.push((fname.to_string(), out["route"].clone()));
                rep.count("renderings_confirmed", 1);
                rep.seen("formats", fname.to_string());
            }
        }
        // (2) summary and identifier plugins directly
        {
            let mut out = json!({"request": query});
            if catch(|| SummaryOutputPlugin {}.process(&mut out, &result)).map(|r| r.is_ok()).unwrap_or(false) {
                let re: usize = routes.iter().map(|r| r.len()).sum();
                let te: usize = trees.iter().map(|t| t.len()).sum();
                if out["route_edges"].as_u64() != Some(re as u64) || out["tree_size_count"].as_u64() != Some(te as u64) {
                    rep.violate("C20|SummaryOutputPlugin|counts", format!("D7 route_edges {} / tree_size_count {} but the result has {re} / {te}", out["route_edges"], out["tree_size_count"]), replay);
                }
            }
            if with_dest {
                if let Ok(up) = UUIDOutputPlugin::from_file(&uuid_file) {
                    let mut out = json!({"request": query});
                    match catch(|| up.process(&mut out, &result)) {
                        Ok(Ok(())) => {
                            if out["origin_vertex_uuid"].as_str() != Some(uuid_for(&spec, o).as_str()) || out["destination_vertex_uuid"].as_str() != Some(uuid_for(&spec, d).as_str()) {
                                rep.violate("C20|UUIDOutputPlugin|wrong-identifier", format!("D7 identifiers {} / {} for vertices {o} / {d} (stored {} / {})", out["origin_vertex_uuid"], out["destination_vertex_uuid"], uuid_for(&spec, o), uuid_for(&spec, d)), replay);
                            }
                        }
                        Ok(Err(e)) => rep.violate("C20|UUIDOutputPlugin|error", format!("D7 {e}"), replay),
                        Err(pm) => rep.violate(&format!("C20|UUIDOutputPlugin|{}", panic_sig(&pm)), pm, replay),
                    }
                }
            }
        }
        // (3) the application's own response for the configured formats
        rep.eval();
        let (resp, _) = with_ctx(step_budget(net.nv(), net.ne(), k), false, || built.app.run(vec![query.clone()], None));
        if let Ok(Ok(v)) = resp {
            if let Some(r) = v.first() {
                let (rf, _) = FORMATS[app_route_fmt];
                let route_geom = !app_route_only_tree && matches!(rf, "geo_json" | "wkt" | "wkb");
                let needs_geom = route_geom || (app_tree_fmt < 5 && matches!(FORMATS[app_tree_fmt].0, "geo_json" | "wkt" | "wkb"));
                if r.get("error").is_some() {
                    if !(needs_geom && (route_touches_missing || tree_touches_missing)) && with_dest {
                        // the uuid plugin needs a destination; other errors are unexpected here
                        rep.violate("C20|CompassApp::run|unexpected-error", format!("response is an error: {}", r["error"].to_string().chars().take(200).collect::<String>()), replay);
                    }
                } else {
                    if needs_geom && ((route_geom && route_touches_missing) || tree_touches_missing && app_tree_fmt < 5 && matches!(FORMATS[app_tree_fmt].0, "geo_json" | "wkt" | "wkb")) {
                        rep.violate("C20|CompassApp::run|missing-geometry-not-reported", "D5 the response renders geometry although rows are missing".into(), replay);
                    }
                    // D6 a configured tree format produces the tree, whether or not a route format is configured
                    if app_tree_fmt < 5 && !trees.is_empty() {
                        let tf = FORMATS[app_tree_fmt].0;
                        let tree_vals: Vec<Value> = match (&r["tree"], trees.len()) {
                            (Value::Null, _) => vec![],
                            (v, 1) => vec![v.clone()],
                            (Value::Array(a), n) if a.len() == n => a.clone(),
                            (v, _) => vec![v.clone()],
                        };
                        if tree_vals.len() != trees.len() {
                            rep.violate(&format!("C20|CompassApp::run|tree-missing|{}", if app_route_only_tree { "tree-only" } else { "route+tree" }), format!("D6 tree format {tf} is configured, the search produced {} trees, the response's tree field is {}", trees.len(), r["tree"].to_string().chars().take(120).collect::<String>()), replay);
                        } else {
                            for (ti, tv) in tree_vals.iter().enumerate() {
                                if let Err((clause, detail)) = check_tree_render(&spec, tf, tv, &trees[ti]) {
                                    rep.violate(&format!("C20|CompassApp::run|tree|{tf}|{clause}"), format!("tree {ti}: {detail}"), replay);
                                }
                            }
                            rep.count("application_trees_confirmed", 1);
                        }
                    }
                    if app_route_only_tree && !r["route"].is_null() && !r["route"]["path"].is_null() {
                        rep.violate("C20|CompassApp::run|route-rendered-without-a-route-format", format!("no route format configured but the response holds {}", r["route"]["path"].to_string().chars().take(120).collect::<String>()), replay);
                    }
                    // the response's route equals the direct rendering of the same format
                    if let Some((_, direct)) = rendered_routes.iter().find(|(f, _)| f == rf && !app_route_only_tree) {
                        let strip = |v: &Value| -> Value {
                            match v {
                                Value::Array(a) => Value::Array(a.iter().map(|x| x["path"].clone()).collect()),
                                o => o["path"].clone(),
                            }
                        };
                        // the slot order of the state vector is not fixed between two builds of the per-query
                        // state model (features are collected through a hash map), so result_state vectors
                        // are compared as multisets
                        fn norm(v: &Value) -> Value {
                            match v {
                                Value::Object(o) => Value::Object(
                                    o.iter()
                                        .map(|(k, x)| {
                                            if k == "result_state" {
                                                let mut a: Vec<f64> = x.as_array().map(|a| a.iter().filter_map(|y| y.as_f64()).collect()).unwrap_or_default();
                                                a.sort_by(|p, q| p.partial_cmp(q).unwrap_or(std::cmp::Ordering::Equal));
                                                (k.clone(), json!(a))
                                            } else {
                                                (k.clone(), norm(x))
                                            }
                                        })
                                        .collect(),
                                ),
                                Value::Array(a) => Value::Array(a.iter().map(norm).collect()),
                                o => o.clone(),
                            }
                        }
                        if norm(&strip(&r["route"])) != norm(&strip(direct)) {
                            rep.violate(&format!("C20|CompassApp::run|response-route-differs|{rf}"), format!("the application's response renders another route than the plugin on the same query: {} vs {}", strip(&r["route"]).to_string().chars().take(400).collect::<String>(), strip(direct).to_string().chars().take(400).collect::<String>()), replay);
                        }
                    }
                    // D7 an identifier is attached for a matched vertex only: a query without destination has no destination identifier
                    if !with_dest && r.get("destination_vertex_uuid").map(|v| !v.is_null()).unwrap_or(false) {
                        rep.violate("C20|CompassApp::run|identifier-without-vertex", format!("D7 the query has no destination, the response carries destination_vertex_uuid {}", r["destination_vertex_uuid"]), replay);
                    }
                    if with_dest && (r["origin_vertex_uuid"].as_str() != Some(uuid_for(&spec, o).as_str()) || r["destination_vertex_uuid"].as_str() != Some(uuid_for(&spec, d).as_str())) {
                        rep.violate("C20|CompassApp::run|wrong-identifier", format!("D7 identifiers {} / {} for vertices {o} / {d}", r["origin_vertex_uuid"], r["destination_vertex_uuid"]), replay);
                    }
                    rep.count("application_responses_confirmed", 1);
                }
            }
        }
        if routes.iter().any(|r| r.len() >= 2) {
            rep.nontrivial(hash_str(&format!("{}|{:?}|{}|{}", net.ne(), routes, spec.geom_points, spec.geom_truncate)));
            rep.sample(|| json!({"algorithm": alg.name(), "query": query, "routes": routes, "tree_sizes": trees.iter().map(|t| t.len()).collect::<Vec<_>>(), "geometry_points_per_edge": spec.geom_points, "geometry_rows_missing": spec.geom_truncate, "formats_confirmed": rendered_routes.iter().map(|(f, _)| f.clone()).collect::<Vec<_>>()}));
        }
    }
}

pub fn run(tier: Tier, seed: u64) -> MonOut {
    let saved = silence_stderr();
    let n = tier.n(4_000, 150_000);
    let rep = par_cases(seed, n, |_i, rng, rep| case(tier, rng, rep));
    crate::appgen::restore_stderr(saved);
    MonOut {
        report: rep,
        rule: "generated networks with geometry tables of 2..6-point linestrings per edge (intermediate points unique to the edge; in 40 % of the tables every third edge repeats one of its points); identifier tables of which 30 % leave every fifth row blank, 30 % with the last rows missing, plain or gzip; real search results (Dijkstra / A* / single-via k 2..4, with and without destination) rendered by the real TraversalPlugin in all five formats for routes and trees, by SummaryOutputPlugin and UUIDOutputPlugin, and by CompassApp::run with a randomly configured format pair; WKT and WKB are decoded with the wkt / wkb crates. non-trivial = a route of >= 2 edges; distinct by (network, routes, geometry layout)".into(),
        assumptions: vec![
            "the reference for every format is the SearchAppResult handed to the plugin (edge sequence, serialized edge traversals) and the generator's geometry table".into(),
            "coordinates compare exactly for WKB (f32 widened to f64) and exactly after narrowing to f32 for WKT / GeoJSON text".into(),
            "edge_id and json formats need no geometry: only geo_json / wkt / wkb must turn a missing row into an error".into(),
        ],
        floor: 100,
        exhaustive: false,
        explanation: "sampled routes/trees x all five formats".into(),
    }
}

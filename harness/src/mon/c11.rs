//! C11 — every state feature owns exactly one state-vector slot, at any feature count.
use super::{MonOut, Tier};
use crate::hooks::{catch, panic_sig};
use crate::oracle::units as U;
use crate::oracle::units::rel_close;
use crate::par::par_cases;
use crate::report::Report;
use crate::rng::{hash_str, Rng};
use routee_compass_core::model::state::custom_feature_format::CustomFeatureFormat;
use routee_compass_core::model::state::state_feature::StateFeature;
use routee_compass_core::model::state::state_model::StateModel;
use routee_compass_core::model::traversal::state::state_variable::StateVar;
use routee_compass_core::model::unit::as_f64::AsF64;
use routee_compass_core::model::unit::{Distance, Energy, Time};
use routee_compass_core::util::compact_ordered_hash_map::CompactOrderedHashMap;
use serde_json::{json, Value};

type Map = CompactOrderedHashMap<u32, i64>;

/// insertion-ordered reference map
#[derive(Clone, Default, Debug)]
struct RefMap(Vec<(u32, i64)>);
impl RefMap {
    fn insert(&mut self, k: u32, v: i64) -> Option<i64> {
        for e in self.0.iter_mut() {
            if e.0 == k {
                let old = e.1;
                e.1 = v;
                return Some(old);
            }
        }
        self.0.push((k, v));
        None
    }
    fn from_list(l: &[(u32, i64)]) -> RefMap {
        let mut m = RefMap::default();
        for (k, v) in l {
            m.insert(*k, *v);
        }
        m
    }
}

fn size_class(n: usize) -> &'static str {
    match n {
        0 => "size=0",
        1..=4 => "size<=4",
        5 => "size=5",
        _ => "size>=6",
    }
}

/// parse "IndexedEntry { v: 12, index: 3 }"
fn parse_indexed(dbg: &str) -> Option<(i64, usize)> {
    let v = dbg.split("v: ").nth(1)?.split(',').next()?.trim().parse().ok()?;
    let i = dbg.split("index: ").nth(1)?.trim_end_matches([' ', '}']).trim().parse().ok()?;
    Some((v, i))
}

/// M1: compare the full read API with the reference. returns the first mismatch as (api, detail)
fn compare(m: &Map, r: &RefMap, universe: u32) -> Option<(String, String)> {
    let n = r.0.len();
    if m.len() != n {
        return Some(("len".into(), format!("len {} expected {}", m.len(), n)));
    }
    if m.is_empty() != (n == 0) {
        return Some(("is_empty".into(), format!("is_empty {} with {} entries", m.is_empty(), n)));
    }
    for k in 0..universe {
        let exp = r.0.iter().position(|e| e.0 == k);
        let got = m.get(&k).copied();
        if got != exp.map(|i| r.0[i].1) {
            return Some(("get".into(), format!("get({k}) = {got:?} expected {:?}", exp.map(|i| r.0[i].1))));
        }
        if m.contains_key(&k) != exp.is_some() {
            return Some(("contains_key".into(), format!("contains_key({k}) = {}", m.contains_key(&k))));
        }
        if m.get_index(&k) != exp {
            return Some(("get_index".into(), format!("get_index({k}) = {:?} expected {:?}", m.get_index(&k), exp)));
        }
    }
    for i in 0..n + 2 {
        let got = m.get_pair(i).map(|(k, v)| (*k, *v));
        let exp = r.0.get(i).copied();
        if got != exp {
            return Some(("get_pair".into(), format!("get_pair({i}) = {got:?} expected {exp:?}")));
        }
    }
    let keys: Vec<u32> = m.keys().copied().collect();
    let exp_keys: Vec<u32> = r.0.iter().map(|e| e.0).collect();
    if keys != exp_keys {
        return Some(("keys".into(), format!("keys {keys:?} expected {exp_keys:?}")));
    }
    let it: Vec<(u32, i64)> = m.iter().map(|(k, v)| (*k, *v)).collect();
    if it != r.0 {
        return Some(("iter".into(), format!("iter yields {it:?} expected {:?}", r.0)));
    }
    let ii: Vec<(usize, u32, i64)> = m.indexed_iter().map(|(i, (k, v))| (i, *k, *v)).collect();
    let exp_ii: Vec<(usize, u32, i64)> = r.0.iter().enumerate().map(|(i, e)| (i, e.0, e.1)).collect();
    if ii != exp_ii {
        return Some(("indexed_iter".into(), format!("indexed_iter yields {ii:?} expected {exp_ii:?}")));
    }
    let tv: Vec<(u32, Option<(i64, usize)>)> = m.to_vec().iter().map(|(k, e)| (*k, parse_indexed(&format!("{:?}", e)))).collect();
    let exp_tv: Vec<(u32, Option<(i64, usize)>)> = r.0.iter().enumerate().map(|(i, e)| (e.0, Some((e.1, i)))).collect();
    if tv != exp_tv {
        return Some(("to_vec".into(), format!("to_vec yields {tv:?} expected {exp_tv:?}")));
    }
    let into: Vec<(u32, Option<(i64, usize)>)> = m.clone().into_iter().map(|(k, e)| (k, parse_indexed(&format!("{:?}", e)))).collect();
    if into != exp_tv {
        return Some(("into_iter".into(), format!("into_iter yields {into:?} expected {exp_tv:?}")));
    }
    None
}

fn map_case(rng: &mut Rng, rep: &mut Report) {
    rep.eval();
    let universe = *rng.pick(&[3u32, 6, 8, 12, 40]);
    let mut counter = 0i64;
    let mut next_v = || {
        counter += 1;
        counter
    };
    let mut ops: Vec<Value> = vec![];
    // construction
    let ctor = rng.below(4);
    let init_len = if ctor == 0 { 0 } else { *rng.pick(&[0usize, 1, 2, 3, 4, 5, 6, 7, 9, 14]) };
    let dup = rng.chance(0.3);
    let list: Vec<(u32, i64)> = (0..init_len)
        .map(|i| {
            let k = if dup { rng.below(universe as usize) as u32 } else { (i as u32 * 7 + 3) % universe.max(init_len as u32 + 1) };
            (k, next_v())
        })
        .collect();
    let has_dup = {
        let mut ks: Vec<u32> = list.iter().map(|e| e.0).collect();
        ks.sort();
        ks.windows(2).any(|w| w[0] == w[1])
    };
    let universe = universe.max(init_len as u32 + 1);
    let built = catch(|| match ctor {
        0 => Map::empty(),
        1 => Map::new(list.clone()),
        2 => Map::from(list.clone()),
        _ => list.clone().into_iter().collect::<Map>(),
    });
    let ctor_name = ["empty", "new", "from", "from_iter"][ctor];
    ops.push(json!({"ctor": ctor_name, "entries": list}));
    let mut r = RefMap::from_list(&list);
    let mut m = match built {
        Ok(m) => m,
        Err(p) => {
            rep.violate(&format!("C11|CompactOrderedHashMap::{ctor_name}|{}", panic_sig(&p)), format!("constructor panicked: {p}"), || json!({"ops": ops}));
            return;
        }
    };
    let mut overwrote_late = false;
    let hi = if rng.chance(0.2) { 200 } else { 24 };
    let nops = rng.urange(0, hi);
    for step in 0..=nops {
        if let Some((api, detail)) = compare(&m, &r, universe) {
            let via = if step == 0 { format!("after-{ctor_name}{}", if has_dup { "-dup" } else { "" }) } else { "after-insert".to_string() };
            rep.violate(
                &format!("C11|CompactOrderedHashMap::{api}|mismatch|{}|{via}", size_class(r.0.len())),
                format!("M1 {detail} (after {} operations, reference {:?})", step, r.0),
                || json!({"ops": ops}),
            );
            return;
        }
        if step == nops {
            break;
        }
        match rng.below(10) {
            0 => {
                let c = m.clone();
                ops.push(json!("clone"));
                m = c;
            }
            _ => {
                let overwrite = !r.0.is_empty() && rng.chance(0.35);
                let k = if overwrite { r.0[rng.below(r.0.len())].0 } else { rng.below(universe as usize) as u32 };
                let v = next_v();
                let existed_pos = r.0.iter().position(|e| e.0 == k);
                if existed_pos.is_some() && r.0.len() >= 5 {
                    overwrote_late = true;
                }
                ops.push(json!({"insert": [k, v]}));
                let got = match catch(|| m.insert(k, v)) {
                    Ok(g) => g,
                    Err(p) => {
                        rep.violate(&format!("C11|CompactOrderedHashMap::insert|{}", panic_sig(&p)), format!("insert panicked: {p}"), || json!({"ops": ops}));
                        return;
                    }
                };
                let exp = r.insert(k, v);
                if got != exp {
                    rep.violate(
                        &format!("C11|CompactOrderedHashMap::insert|wrong-return|{}", size_class(r.0.len())),
                        format!("M1 insert({k},{v}) returned {got:?} expected {exp:?}"),
                        || json!({"ops": ops}),
                    );
                    return;
                }
            }
        }
    }
    rep.count("map_operations", nops as u64 + 1);
    rep.max("max_map_size", r.0.len() as u64);
    if r.0.len() >= 6 || overwrote_late {
        rep.nontrivial(hash_str(&serde_json::to_string(&ops).unwrap_or_default()));
        rep.sample(|| json!({"kind": "map", "ops": ops.iter().take(12).collect::<Vec<_>>(), "final_size": r.0.len()}));
    }
}

// ------------------------------------------------------------------------------------------
// state model
// ------------------------------------------------------------------------------------------

#[derive(Clone, Debug)]
enum Feat {
    Dist(usize, f64),
    Time(usize, f64),
    Energy(usize, f64),
    CustomF(f64),
    CustomI(i64),
    CustomU(u64),
    CustomB(bool),
}

impl Feat {
    fn kind(&self) -> &'static str {
        match self {
            Feat::Dist(..) => "distance",
            Feat::Time(..) => "time",
            Feat::Energy(..) => "energy",
            Feat::CustomF(_) => "cf",
            Feat::CustomI(_) => "ci",
            Feat::CustomU(_) => "cu",
            Feat::CustomB(_) => "cb",
        }
    }
    /// kinds that StateFeature::eq treats as the same feature (so that extend may overwrite)
    fn same_feature(&self, o: &Feat) -> bool {
        match (self, o) {
            (Feat::Dist(..), Feat::Dist(..)) | (Feat::Time(..), Feat::Time(..)) | (Feat::Energy(..), Feat::Energy(..)) => true,
            // custom features compare on type + unit only; the harness gives every custom kind its own type name,
            // and all customs of one kind share type and unit
            (a, b) => a.kind() == b.kind(),
        }
    }
    fn build(&self) -> StateFeature {
        match self {
            Feat::Dist(u, i) => StateFeature::Distance { distance_unit: U::DISTANCE_UNITS[*u], initial: Distance::new(*i) },
            Feat::Time(u, i) => StateFeature::Time { time_unit: U::TIME_UNITS[*u], initial: Time::new(*i) },
            Feat::Energy(u, i) => StateFeature::Energy { energy_unit: U::ENERGY_UNITS[*u], initial: Energy::new(*i) },
            Feat::CustomF(i) => StateFeature::Custom { r#type: "cf".into(), unit: "x".into(), format: CustomFeatureFormat::FloatingPoint { initial: (*i).into() } },
            Feat::CustomI(i) => StateFeature::Custom { r#type: "ci".into(), unit: "x".into(), format: CustomFeatureFormat::SignedInteger { initial: *i } },
            Feat::CustomU(i) => StateFeature::Custom { r#type: "cu".into(), unit: "x".into(), format: CustomFeatureFormat::UnsignedInteger { initial: *i } },
            Feat::CustomB(i) => StateFeature::Custom { r#type: "cb".into(), unit: "x".into(), format: CustomFeatureFormat::Boolean { initial: *i } },
        }
    }
    fn initial(&self) -> f64 {
        match self {
            Feat::Dist(_, i) | Feat::Time(_, i) | Feat::Energy(_, i) | Feat::CustomF(i) => *i,
            Feat::CustomI(i) => *i as f64,
            Feat::CustomU(i) => *i as f64,
            Feat::CustomB(b) => if *b { 1.0 } else { 0.0 },
        }
    }
    fn json(&self) -> Value {
        serde_json::to_value(self.build()).unwrap_or(Value::Null)
    }
}

fn gen_feat(rng: &mut Rng) -> Feat {
    let init = if rng.chance(0.4) { 0.0 } else { (rng.frange(0.0, 1000.0) * 8.0).round() / 8.0 };
    match rng.below(7) {
        0 => Feat::Dist(rng.below(5), init),
        1 => Feat::Time(rng.below(4), init),
        2 => Feat::Energy(rng.below(3), init),
        3 => Feat::CustomF(init),
        4 => Feat::CustomI(rng.range(-50, 50)),
        5 => Feat::CustomU(rng.urange(0, 50) as u64),
        _ => Feat::CustomB(rng.chance(0.5)),
    }
}

fn state_case(rng: &mut Rng, rep: &mut Report) {
    rep.eval();
    let names: Vec<String> = (0..20).map(|i| format!("f{i}")).collect();
    // reference: ordered list of (name, feat)
    let mut refm: Vec<(String, Feat)> = vec![];
    let mut history: Vec<Value> = vec![];
    let n0 = *rng.pick(&[0usize, 1, 2, 3, 4, 5, 6, 7, 8, 10, 14]);
    let mut pool: Vec<usize> = (0..20).collect();
    rng.shuffle(&mut pool);
    let first: Vec<(String, Feat)> = pool.iter().take(n0).map(|i| (names[*i].clone(), gen_feat(rng))).collect();
    let ctor = rng.below(3);
    let ctor_name = ["new", "try_from_json", "empty+extend"][ctor];
    history.push(json!({"ctor": ctor_name, "features": first.iter().map(|(n, f)| json!([n, f.json()])).collect::<Vec<_>>()}));
    let built = catch(|| match ctor {
        0 => Ok(StateModel::new(first.iter().map(|(n, f)| (n.clone(), f.build())).collect())),
        1 => {
            let mut o = serde_json::Map::new();
            for (n, f) in &first {
                o.insert(n.clone(), f.json());
            }
            StateModel::try_from(&Value::Object(o)).map_err(|e| e.to_string())
        }
        _ => StateModel::empty().extend(first.iter().map(|(n, f)| (n.clone(), f.build())).collect()).map_err(|e| e.to_string()),
    });
    let mut sm = match built {
        Ok(Ok(m)) => m,
        Ok(Err(e)) => {
            rep.violate(&format!("C11|StateModel::{ctor_name}|error"), format!("building a state model from distinct names failed: {e}"), || json!({"history": history}));
            return;
        }
        Err(p) => {
            rep.violate(&format!("C11|StateModel::{ctor_name}|{}", panic_sig(&p)), format!("panicked: {p}"), || json!({"history": history}));
            return;
        }
    };
    refm.extend(first);
    // extension chain
    let chains = rng.urange(0, 4);
    for _ in 0..chains {
        let k = rng.urange(1, 4);
        let mut ext: Vec<(String, Feat)> = vec![];
        for _ in 0..k {
            if !refm.is_empty() && rng.chance(0.4) {
                // overlap: same kind (override of unit/initial) or, rarely, another kind (must be refused)
                let (n, f) = refm[rng.below(refm.len())].clone();
                let nf = if rng.chance(0.85) {
                    let mut g = gen_feat(rng);
                    let mut tries = 0;
                    while !g.same_feature(&f) && tries < 50 {
                        g = gen_feat(rng);
                        tries += 1;
                    }
                    g
                } else {
                    gen_feat(rng)
                };
                ext.push((n, nf));
            } else {
                ext.push((names[rng.below(20)].clone(), gen_feat(rng)));
            }
        }
        history.push(json!({"extend": ext.iter().map(|(n, f)| json!([n, f.json()])).collect::<Vec<_>>()}));
        // reference semantics: apply in order; a different kind under an existing name => the whole extend is refused
        let mut trial = refm.clone();
        let mut refused = false;
        for (n, f) in &ext {
            match trial.iter().position(|e| &e.0 == n) {
                Some(p) => {
                    if !trial[p].1.same_feature(f) {
                        refused = true;
                    }
                    trial[p].1 = f.clone();
                }
                None => trial.push((n.clone(), f.clone())),
            }
        }
        let res = catch(|| sm.extend(ext.iter().map(|(n, f)| (n.clone(), f.build())).collect()));
        match res {
            Err(p) => {
                rep.violate(&format!("C11|StateModel::extend|{}", panic_sig(&p)), format!("extend panicked: {p}"), || json!({"history": history}));
                return;
            }
            Ok(Err(e)) => {
                if !refused {
                    rep.violate("C11|StateModel::extend|refuses-compatible-override", format!("extend refused a same-kind override: {e}"), || json!({"history": history}));
                    return;
                }
                rep.count("extend_refusals", 1);
            }
            Ok(Ok(next)) => {
                if refused {
                    rep.violate("C11|StateModel::extend|accepts-kind-change", "extend accepted a feature of another kind under an existing name".into(), || json!({"history": history}));
                    return;
                }
                sm = next;
                refm = trial;
            }
        }
    }
    let n = refm.len();
    let sc = size_class(n);
    let rp = || json!({"history": history});
    // M2 slots are 0..n-1 in declaration order
    if sm.len() != n {
        rep.violate(&format!("C11|StateModel::len|mismatch|{sc}"), format!("M2 len {} expected {n}", sm.len()), rp);
        return;
    }
    let idx: Vec<(usize, String)> = sm.indexed_iter().map(|(i, (k, _))| (i, k.clone())).collect();
    let exp_idx: Vec<(usize, String)> = refm.iter().enumerate().map(|(i, e)| (i, e.0.clone())).collect();
    if idx != exp_idx {
        rep.violate(&format!("C11|StateModel::indexed_iter|mismatch|{sc}"), format!("M2 slots {idx:?} expected {exp_idx:?}"), rp);
        return;
    }
    let tv: Vec<(String, Option<usize>)> = sm.to_vec().iter().map(|(k, e)| (k.clone(), format!("{:?}", e).rsplit("index: ").next().and_then(|s| s.trim_end_matches([' ', '}']).trim().parse().ok()))).collect();
    let exp_tv: Vec<(String, Option<usize>)> = refm.iter().enumerate().map(|(i, e)| (e.0.clone(), Some(i))).collect();
    if tv != exp_tv {
        rep.violate(&format!("C11|StateModel::to_vec|mismatch|{sc}"), format!("M2 to_vec {tv:?} expected {exp_tv:?}"), rp);
        return;
    }
    // M3 initial state
    let init = match sm.initial_state() {
        Ok(v) => v,
        Err(e) => {
            rep.violate(&format!("C11|StateModel::initial_state|error|{sc}"), format!("M3 initial_state failed: {e}"), rp);
            return;
        }
    };
    let exp_init: Vec<f64> = refm.iter().map(|e| e.1.initial()).collect();
    if init.len() != n || init.iter().zip(&exp_init).any(|(a, b)| a.0 != *b) {
        rep.violate(
            &format!("C11|StateModel::initial_state|mismatch|{sc}"),
            format!("M3 initial state {:?} expected {:?}", init.iter().map(|s| s.0).collect::<Vec<_>>(), exp_init),
            rp,
        );
        return;
    }
    // serialize_state names every feature
    if let Some(o) = sm.serialize_state(&init).as_object() {
        if o.len() != n {
            rep.violate(&format!("C11|StateModel::serialize_state|mismatch|{sc}"), format!("M3 serialized state has {} entries expected {n}", o.len()), rp);
            return;
        }
    }
    // M3 the declared initial values, read back by name through the typed accessors on the model's own initial state
    if let Ok(init_state) = sm.initial_state() {
        for (name, feat) in refm.iter() {
            let bad = match feat {
                Feat::CustomI(i) => sm.get_custom_i64(&init_state, name).ok() != Some(*i),
                Feat::CustomU(u) => sm.get_custom_u64(&init_state, name).ok() != Some(*u),
                Feat::CustomB(b) => sm.get_custom_bool(&init_state, name).ok() != Some(*b),
                Feat::CustomF(f) => sm.get_custom_f64(&init_state, name).ok().map(|x| x.to_bits()) != Some(f.to_bits()),
                _ => false,
            };
            if bad {
                rep.violate(&format!("C11|StateModel::get_custom|initial-value-differs|{}|{sc}", feat.kind()), format!("M3 the declared initial value of {name} ({:?}) is not what the typed accessor reads from initial_state()", feat), rp);
                return;
            }
        }
    }
    // M4/M5/M6 random updates
    let mut state: Vec<StateVar> = exp_init.iter().map(|x| StateVar(*x)).collect();
    let nup = rng.urange(1, 30);
    for _ in 0..nup {
        if n == 0 {
            break;
        }
        let p = rng.below(n);
        let (name, feat) = refm[p].clone();
        let before = state.clone();
        let val = (rng.frange(0.0, 5000.0) * 16.0).round() / 16.0;
        let add = rng.chance(0.4);
        #[allow(unused_assignments)]
        let mut expect_total = val;
        let (res, got): (Result<(), String>, Option<(f64, bool)>) = match &feat {
            Feat::Dist(fu, _) => {
                let cu = rng.below(5);
                let r = if add { sm.add_distance(&mut state, &name, &Distance::new(val), &U::DISTANCE_UNITS[cu]) } else { sm.set_distance(&mut state, &name, &Distance::new(val), &U::DISTANCE_UNITS[cu]) };
                let g = sm.get_distance(&state, &name, &U::DISTANCE_UNITS[cu]).ok().map(|d| (d.as_f64(), cu == *fu));
                let base = if add { U::conv_dist(before[p].0, U::DISTANCE_UNITS[*fu], U::DISTANCE_UNITS[cu]) } else { 0.0 };
                (r.map_err(|e| e.to_string()), g.map(|(x, ex)| (x - base + base, ex)).map(|t| { expect_total = base + val; t }))
            }
            Feat::Time(fu, _) => {
                let cu = rng.below(4);
                let r = if add { sm.add_time(&mut state, &name, &Time::new(val), &U::TIME_UNITS[cu]) } else { sm.set_time(&mut state, &name, &Time::new(val), &U::TIME_UNITS[cu]) };
                let g = sm.get_time(&state, &name, &U::TIME_UNITS[cu]).ok().map(|d| (d.as_f64(), cu == *fu));
                let base = if add { U::conv_time(before[p].0, U::TIME_UNITS[*fu], U::TIME_UNITS[cu]) } else { 0.0 };
                (r.map_err(|e| e.to_string()), g.map(|(x, ex)| (x - base + base, ex)).map(|t| { expect_total = base + val; t }))
            }
            Feat::Energy(fu, _) => {
                // energy units have no physical oracle (fuel equivalences are conventions): the caller's unit is drawn at
                // random and the repo's own conversion table gives the previous value in it; what is written in a unit
                // has to be read back in that unit (the table's there-and-back error is 0.023 % at most)
                let cu = rng.below(3);
                let r = if add { sm.add_energy(&mut state, &name, &Energy::new(val), &U::ENERGY_UNITS[cu]) } else { sm.set_energy(&mut state, &name, &Energy::new(val), &U::ENERGY_UNITS[cu]) };
                let g = sm.get_energy(&state, &name, &U::ENERGY_UNITS[cu]).ok().map(|d| (d.as_f64(), cu == *fu));
                let base = if add { routee_compass_core::model::unit::as_f64::AsF64::as_f64(&U::ENERGY_UNITS[*fu].convert(&Energy::new(before[p].0), &U::ENERGY_UNITS[cu])) } else { 0.0 };
                (r.map_err(|e| e.to_string()), g.map(|(x, ex)| (x - base + base, ex)).map(|t| { expect_total = base + val; t }))
            }
            Feat::CustomF(_) => {
                let r = sm.set_custom_f64(&mut state, &name, &val);
                (r.map_err(|e| e.to_string()), sm.get_custom_f64(&state, &name).ok().map(|x| (x, true)))
            }
            Feat::CustomI(_) => {
                // negative values and large magnitudes included
                let v = match rng.below(4) {
                    0 => -(val as i64),
                    1 => -(val as i64) - 1,
                    2 => (val as i64) * 1_000_003,
                    _ => val as i64,
                };
                let r = sm.set_custom_i64(&mut state, &name, &v);
                // reported relative to `val` so that the comparison below is x == v
                (r.map_err(|e| e.to_string()), sm.get_custom_i64(&state, &name).ok().map(|x| ((x - v) as f64 + val, true)))
            }
            Feat::CustomU(_) => {
                let v = val as u64;
                let r = sm.set_custom_u64(&mut state, &name, &v);
                (r.map_err(|e| e.to_string()), sm.get_custom_u64(&state, &name).ok().map(|x| (x as f64 + val.fract(), true)))
            }
            Feat::CustomB(_) => {
                let b = val > 2500.0;
                let r = sm.set_custom_bool(&mut state, &name, &b);
                (r.map_err(|e| e.to_string()), sm.get_custom_bool(&state, &name).ok().map(|x| (if x == b { val } else { -1.0 }, true)))
            }
        };
        let kind = feat.kind();
        if let Err(e) = res {
            rep.violate(&format!("C11|StateModel::set|error|{sc}"), format!("M4 updating {name} ({kind}) failed: {e}"), rp);
            return;
        }
        // M4 only its own slot changed
        for j in 0..n {
            if j != p && state[j].0.to_bits() != before[j].0.to_bits() {
                rep.violate(&format!("C11|StateModel::set|touches-other-slot|{sc}"), format!("M4 updating {name} (slot {p}) changed slot {j}"), rp);
                return;
            }
        }
        // M5 round trip
        match got {
            None => {
                rep.violate(&format!("C11|StateModel::get|error|{sc}"), format!("M5 reading back {name} ({kind}) failed"), rp);
                return;
            }
            Some((x, exact)) => {
                let ok = if exact && !add { x == val } else { rel_close(x, expect_total, 1e-3, 1e-9) };
                if !ok {
                    rep.violate(&format!("C11|StateModel::get|round-trip-off|{kind}|{}", if add { "add" } else { "set" }), format!("M5 {name} ({kind}): wrote {val} (add={add}) expected to read {expect_total}, read {x}"), rp);
                    return;
                }
            }
        }
        rep.count("state_updates", 1);
    }
    // M6 unknown names / wrong kinds are errors
    let unknown = "no_such_feature".to_string();
    if sm.get_distance(&state, &unknown, &U::DISTANCE_UNITS[0]).is_ok() || sm.set_custom_f64(&mut state.clone(), &unknown, &1.0).is_ok() || sm.contains_key(&unknown) {
        rep.violate("C11|StateModel::get|unknown-name-accepted", "M6 an unknown feature name was accepted".into(), rp);
        return;
    }
    if n > 0 {
        let p = rng.below(n);
        let (name, feat) = &refm[p];
        let wrong_ok = match feat {
            Feat::Dist(..) => sm.get_time(&state, name, &U::TIME_UNITS[0]).is_ok() || sm.get_custom_f64(&state, name).is_ok(),
            Feat::Time(..) => sm.get_distance(&state, name, &U::DISTANCE_UNITS[0]).is_ok() || sm.get_energy(&state, name, &U::ENERGY_UNITS[0]).is_ok(),
            Feat::Energy(..) => sm.get_time(&state, name, &U::TIME_UNITS[0]).is_ok() || sm.get_custom_bool(&state, name).is_ok(),
            Feat::CustomF(_) => sm.get_distance(&state, name, &U::DISTANCE_UNITS[0]).is_ok() || sm.get_custom_i64(&state, name).is_ok(),
            Feat::CustomI(_) => sm.get_custom_f64(&state, name).is_ok() || sm.get_custom_bool(&state, name).is_ok(),
            Feat::CustomU(_) => sm.get_custom_i64(&state, name).is_ok() || sm.get_time(&state, name, &U::TIME_UNITS[0]).is_ok(),
            Feat::CustomB(_) => sm.get_custom_u64(&state, name).is_ok() || sm.get_energy(&state, name, &U::ENERGY_UNITS[0]).is_ok(),
        };
        if wrong_ok {
            rep.violate(&format!("C11|StateModel::get|wrong-kind-accepted|{}", feat.kind()), format!("M6 feature {name} ({}) was readable as another kind", feat.kind()), rp);
            return;
        }
    }
    rep.max("max_features", n as u64);
    rep.seen("feature_counts", n.to_string());
    if n >= 6 || chains >= 2 {
        rep.nontrivial(hash_str(&serde_json::to_string(&history).unwrap_or_default()));
        rep.sample(|| json!({"kind": "state_model", "features": n, "extensions": chains, "slots": exp_idx.iter().take(8).collect::<Vec<_>>()}));
    }
}

/// (iii) the state model of a query's own search instance: features contributed by the traversal and access models of
/// an application built from TOML, overridden per query through `state_features`
fn instance_case(case_no: usize, rng: &mut Rng, rep: &mut Report) {
    use crate::appgen::{build_app, AppSpec};
    use crate::run::Alg;
    use crate::world::{gen_world, AccessCfg, WorldParams};
    let mut p = WorldParams::default();
    p.net.min_v = 4;
    p.net.max_v = 10;
    p.allow_turn_delay = true;
    p.mixed_units = false;
    p.random_initials = false;
    p.surcharges = false;
    let world = gen_world(rng, &p);
    let has_time = world.uses_time();
    let has_delay = matches!(world.access, AccessCfg::TurnDelay { .. });
    let spec = AppSpec::basic(world.clone(), Alg::Dijkstra);
    let built = match catch(|| build_app(&spec, "c11")) {
        Ok(Ok(b)) => b,
        Ok(Err(e)) => {
            rep.violate("C11|instance|CompassApp::try_from|load-error", format!("well-formed configuration refused: {}", e.lines().next().unwrap_or("")), || json!({"toml": e}));
            return;
        }
        Err(pm) => {
            rep.violate(&format!("C11|instance|CompassApp::try_from|{}", panic_sig(&pm)), pm, || json!({}));
            return;
        }
    };
    for i in 0..4 {
        rep.eval();
        let mode = ["no-override", "override-distance", "override-time", "override-both"][rng.below(4)];
        let (mut du, mut di, mut tu, mut ti) = (world.state.dist_unit, world.state.dist_init, world.state.time_unit, world.state.time_init);
        let mut sf = serde_json::Map::new();
        if mode == "override-distance" || mode == "override-both" {
            du = *rng.pick(&U::DISTANCE_UNITS);
            di = if rng.chance(0.3) { 0.0 } else { (rng.frange(0.0, 80.0) * 16.0).round() / 16.0 };
            sf.insert("distance".into(), json!({"distance_unit": du.to_string(), "initial": di}));
        }
        if has_time && (mode == "override-time" || mode == "override-both") {
            tu = *rng.pick(&U::TIME_UNITS);
            ti = if rng.chance(0.3) { 0.0 } else { (rng.frange(0.0, 80.0) * 16.0).round() / 16.0 };
            sf.insert("time".into(), json!({"time_unit": tu.to_string(), "initial": ti}));
        }
        let mut q = json!({"qid": format!("i{case_no}q{i}"), "origin_vertex": 0, "destination_vertex": 1});
        if !sf.is_empty() {
            q["state_features"] = Value::Object(sf);
        }
        let replay = || json!({"toml": built.toml, "query": q});
        let si = match catch(|| built.app.search_app.build_search_instance(&q)) {
            Ok(Ok(si)) => si,
            Ok(Err(e)) => {
                let t = e.to_string();
                if t.contains("unknown state variable name") {
                    // an override for a feature that comes from the [state] section rather than from the models is refused by name
                    rep.count("instance_overrides_refused_(feature_not_declared_by_a_model)", 1);
                } else {
                    rep.violate(&format!("C11|instance|build-error|{mode}"), format!("a well-formed query was refused: {t}"), replay);
                }
                continue;
            }
            Err(pm) => {
                rep.violate(&format!("C11|instance|{}", panic_sig(&pm)), pm, replay);
                continue;
            }
        };
        let sm = si.state_model.clone();
        // M2 slots 0..n-1, one per feature, the features being exactly those of the configuration and the models
        let mut idx: Vec<(usize, String)> = sm.indexed_iter().map(|(i, (k, _))| (i, k.clone())).collect();
        idx.sort();
        let mut want: Vec<&str> = vec!["distance"];
        if has_time || has_delay {
            want.push("time");
        }
        let mut names: Vec<&str> = idx.iter().map(|(_, k)| k.as_str()).collect();
        names.sort();
        want.sort();
        if names != want || idx.iter().enumerate().any(|(i, (j, _))| i != *j) || sm.len() != want.len() {
            rep.violate(&format!("C11|instance|slots|{mode}"), format!("M2 the search instance's state model has slots {idx:?}, the configuration and the models declare {want:?}"), replay);
            continue;
        }
        // M3 the initial state holds the declared initial values (the query's where it overrides)
        let init = match sm.initial_state() {
            Ok(v) => v,
            Err(e) => {
                rep.violate(&format!("C11|instance|initial_state-error|{mode}"), format!("M3 initial_state failed: {e}"), replay);
                continue;
            }
        };
        if init.len() != want.len() {
            rep.violate(&format!("C11|instance|initial-state-length|{mode}"), format!("M3 initial state has {} entries for {} features", init.len(), want.len()), replay);
            continue;
        }
        let got_d = sm.get_distance(&init, &"distance".to_string(), &du).map(|d| d.as_f64()).map_err(|e| e.to_string());
        let got_t = if want.contains(&"time") { Some(sm.get_time(&init, &"time".to_string(), &tu).map(|t| t.as_f64()).map_err(|e| e.to_string())) } else { None };
        let d_ok = matches!(&got_d, Ok(x) if *x == di);
        let t_ok = match &got_t {
            None => true,
            Some(Ok(x)) => *x == ti || !has_time && *x == 0.0,
            Some(Err(_)) => false,
        };
        if !d_ok || !t_ok {
            rep.violate(&format!("C11|instance|initial-value|{mode}"), format!("M3 the query declares distance {di} {du} / time {ti} {tu}; read from initial_state() in those units: {got_d:?} / {got_t:?}"), replay);
            continue;
        }
        // M4 / M5 a named update touches its own slot only and reads back
        let mut st = init.clone();
        let v = (rng.frange(1.0, 500.0) * 16.0).round() / 16.0;
        let slot_d = idx.iter().find(|(_, k)| k == "distance").map(|(i, _)| *i).unwrap_or(0);
        if let Err(e) = sm.set_distance(&mut st, &"distance".to_string(), &Distance::new(v), &du) {
            rep.violate(&format!("C11|instance|set-error|{mode}"), format!("M5 set_distance failed: {e}"), replay);
            continue;
        }
        let back = sm.get_distance(&st, &"distance".to_string(), &du).map(|d| d.as_f64()).unwrap_or(f64::NAN);
        if back != v || st.iter().enumerate().any(|(i, x)| i != slot_d && x.0 != init[i].0) {
            rep.violate(&format!("C11|instance|named-update|{mode}"), format!("M4/M5 set_distance({v} {du}) reads back {back}; state before {:?} after {:?}", init.iter().map(|s| s.0).collect::<Vec<_>>(), st.iter().map(|s| s.0).collect::<Vec<_>>()), replay);
            continue;
        }
        rep.count("instance_state_models_confirmed", 1);
        rep.seen("instance_modes", format!("{mode}|{}", if has_delay { "turn_delay" } else if has_time { "speed" } else { "distance" }));
        if mode != "no-override" {
            rep.nontrivial(hash_str(&format!("instance|{}|{mode}|{du}|{di}|{tu}|{ti}", world.net.ne())));
        }
    }
}

pub fn run(tier: Tier, seed: u64) -> MonOut {
    let n = tier.n(400_000, 15_000_000);
    let rep = par_cases(seed, n, |i, rng, rep| {
        if i % 2000 == 1999 {
            instance_case(i, rng, rep)
        } else if i % 2 == 0 {
            map_case(rng, rep)
        } else {
            state_case(rng, rep)
        }
    });
    MonOut {
        report: rep,
        rule: "(i) random operation sequences on CompactOrderedHashMap<u32,i64> (empty/new/from/from_iter with and without duplicate keys, up to 200 insert|overwrite|clone steps, key universes 3..40) with the complete read API compared against an insertion-ordered Vec reference after every step; (ii) StateModel built by new / try_from(json) / extend chains over 0..14+ features of the four kinds with overlapping names, then random named set/add/get sequences; (iii) one case in 2000: an application built from generated TOML (distance or speed traversal, with or without turn delays) and, per query, SearchApp::build_search_instance with `state_features` overrides of unit and initial value: the instance's state model has exactly the declared features in slots 0..n-1, its initial state holds the query's initial values in the query's units, and a named update touches its own slot only. non-trivial = final size >= 6, an overwrite past the 5th key, or >= 2 extensions; distinct by operation history".into(),
        assumptions: vec![
            "reference semantics of an insertion-ordered map: a key keeps the position of its first insert and the value of its last".into(),
            "IndexedEntry fields are private; their values are read through the Debug rendering".into(),
            "energy features are written and read in their own unit (no physical oracle for energy units); distance/time round trips use the 0.1 % figure of C09".into(),
        ],
        floor: 500,
        exhaustive: false,
        explanation: "sampled histories; every history is checked step by step".into(),
    }
}

//! C18 — strongly connected components are exactly the mutual-reachability classes.
use super::{MonOut, Tier};
use crate::gen::net::{RefEdge, RefNet};
use crate::hooks::catch;
use crate::oracle::graph::{scc_reference, scc_reference_bfs};
use crate::par::par_cases;
use crate::report::Report;
use crate::rng::{hash64, Rng};
use routee_compass_core::algorithm::component::scc;
use serde_json::json;

fn net_of(n: usize, edges: &[(usize, usize)]) -> RefNet {
    RefNet {
        coords: vec![(0.0, 0.0); n],
        edges: edges.iter().map(|(a, b)| RefEdge { src: *a, dst: *b, len_m: 1.0 }).collect(),
        motifs: vec![],
        metric: false,
    }
}

fn check(rep: &mut Report, n: usize, edges: &[(usize, usize)], kind: &str, big: bool) {
    rep.eval();
    // one random graph in eight comes out of the file loader (with or without declared counts) instead of being
    // assembled in memory: the analysis walks the loader's forward and reverse adjacency
    let via_files = kind == "random" && n <= 80 && !edges.is_empty() && (edges.len() * 7 + n) % 8 == 0;
    let net = net_of(n, edges);
    let g: std::sync::Arc<routee_compass_core::model::network::graph::Graph> = if via_files {
        match crate::gen::net::graph_for(&net, true) {
            Ok(g) => {
                rep.count("graphs_loaded_from_files", 1);
                g
            }
            Err(_) => {
                rep.count("file_load_refused_(C15)", 1);
                std::sync::Arc::new(net.to_graph())
            }
        }
    } else {
        std::sync::Arc::new(net.to_graph())
    };
    let g = &*g;
    let replay = || json!({"n": n, "edges": if edges.len() <= 400 { json!(edges) } else { json!(format!("{} edges ({kind})", edges.len())) }, "kind": kind});
    let res = catch(|| (scc::all_strongly_connected_componenets(g), scc::largest_strongly_connected_component(g)));
    let (all, largest) = match res {
        Err(p) => {
            rep.violate(&format!("C18|scc|{}", crate::hooks::panic_sig(&p)), format!("scc panicked: {p}"), replay);
            return;
        }
        Ok((Err(e), _)) | Ok((_, Err(e))) => {
            rep.violate("C18|scc|error", format!("scc returned an error on a well-formed graph: {e}"), replay);
            return;
        }
        Ok((Ok(a), Ok(l))) => (a, l),
    };
    let class = if big { scc_reference_bfs(n, edges) } else { scc_reference(n, edges) };
    // Z1 partition
    let mut comp_of = vec![usize::MAX; n];
    for (ci, c) in all.iter().enumerate() {
        if c.is_empty() {
            rep.violate("C18|scc|empty-component", "Z1 an empty component was returned".into(), replay);
            return;
        }
        for v in c {
            if v.0 >= n {
                rep.violate("C18|scc|unknown-vertex", format!("Z1 vertex {} does not exist", v.0), replay);
                return;
            }
            if comp_of[v.0] != usize::MAX {
                rep.violate("C18|scc|vertex-in-two-components", format!("Z1 vertex {} appears twice", v.0), replay);
                return;
            }
            comp_of[v.0] = ci;
        }
    }
    if let Some(v) = comp_of.iter().position(|c| *c == usize::MAX) {
        rep.violate("C18|scc|vertex-missing", format!("Z1 vertex {v} is in no component"), replay);
        return;
    }
    // Z2 same component <=> same reference class
    let mut rep_class_of_comp = vec![usize::MAX; all.len()];
    let mut comp_of_class = std::collections::HashMap::new();
    for v in 0..n {
        let c = comp_of[v];
        if rep_class_of_comp[c] == usize::MAX {
            rep_class_of_comp[c] = class[v];
        } else if rep_class_of_comp[c] != class[v] {
            rep.violate("C18|scc|component-merges-classes", format!("Z2 component {c} contains vertices that are not mutually reachable (vertex {v})"), replay);
            return;
        }
        match comp_of_class.get(&class[v]) {
            None => {
                comp_of_class.insert(class[v], c);
            }
            Some(c0) if *c0 != c => {
                rep.violate("C18|scc|class-split", format!("Z2 mutually reachable vertices are in different components (vertex {v})"), replay);
                return;
            }
            _ => {}
        }
    }
    // Z3 largest
    let max = all.iter().map(|c| c.len()).max().unwrap_or(0);
    if largest.len() != max {
        rep.violate("C18|scc|largest-not-maximal", format!("Z3 largest has {} vertices, maximum is {max}", largest.len()), replay);
        return;
    }
    if !largest.is_empty() {
        let c0 = comp_of[largest[0].0];
        let mut l: Vec<usize> = largest.iter().map(|v| v.0).collect();
        let mut a: Vec<usize> = all[c0].iter().map(|v| v.0).collect();
        l.sort();
        a.sort();
        if l != a {
            rep.violate("C18|scc|largest-not-a-component", "Z3 largest is not one of the components".into(), replay);
            return;
        }
    }
    let ncomp = all.len();
    if ncomp > 1 && max > 1 {
        let mut key: Vec<u8> = vec![n as u8];
        for (a, b) in edges.iter().take(64) {
            key.push(*a as u8);
            key.push(*b as u8);
        }
        key.extend_from_slice(&(edges.len() as u32).to_le_bytes());
        rep.nontrivial(hash64(&key));
    }
    rep.count(&format!("graphs_{kind}"), 1);
    rep.max("max_vertices", n as u64);
    rep.max("max_components", ncomp as u64);
    if ncomp > 1 && max > 1 && edges.len() >= 3 {
        rep.sample(|| json!({"n": n, "edges": if edges.len() <= 30 { json!(edges) } else { json!(edges.len()) }, "components": ncomp, "largest": max, "kind": kind}));
    }
}

fn random_graph(rng: &mut Rng, n: usize) -> Vec<(usize, usize)> {
    let mut e = vec![];
    let style = rng.below(5);
    match style {
        0 => {
            let m = rng.urange(0, 3 * n);
            for _ in 0..m {
                e.push((rng.below(n), rng.below(n)));
            }
        }
        1 => {
            // nested cycles joined one way
            let k = rng.urange(1, 6);
            let mut start = 0;
            for c in 0..k {
                let len = ((n - start) / (k - c)).max(1);
                for i in 0..len {
                    e.push((start + i, start + (i + 1) % len));
                }
                if start > 0 {
                    e.push((start - 1, start));
                }
                start += len;
                if start >= n {
                    break;
                }
            }
        }
        2 => {
            // dag plus a few back edges
            for a in 0..n {
                for _ in 0..rng.urange(0, 3) {
                    let b = rng.urange(a, n - 1);
                    e.push((a, b));
                }
            }
            for _ in 0..rng.urange(0, 4) {
                let a = rng.below(n);
                e.push((a, rng.below(a + 1)));
            }
        }
        3 => {
            // two-way grid-ish
            let side = (n as f64).sqrt().ceil() as usize;
            for i in 0..n {
                let j = i + 1;
                if j < n && j % side != 0 {
                    e.push((i, j));
                    if rng.chance(0.7) {
                        e.push((j, i));
                    }
                }
                let d = i + side;
                if d < n {
                    e.push((i, d));
                    if rng.chance(0.7) {
                        e.push((d, i));
                    }
                }
            }
        }
        _ => {
            // sparse with isolated vertices, parallel edges and self loops
            let m = rng.urange(0, n);
            for _ in 0..m {
                let a = rng.below(n);
                let b = rng.below(n);
                e.push((a, b));
                if rng.chance(0.2) {
                    e.push((a, b));
                }
                if rng.chance(0.1) {
                    e.push((a, a));
                }
            }
        }
    }
    e
}

pub fn run(tier: Tier, seed: u64) -> MonOut {
    // exhaustive part: all digraphs with self loops on n <= 4 vertices; thorough adds n = 5 without self loops
    let mut rep = Report::new();
    let exhaustive_cases: Vec<(usize, u64, bool)> = {
        let mut v = vec![];
        for n in 1..=4usize {
            v.push((n, 1u64 << (n * n), true));
        }
        if tier.thorough {
            v.push((5, 1u64 << 20, false));
        }
        v
    };
    for (n, total, selfloops) in exhaustive_cases {
        let chunks = 64usize;
        let r = par_cases(seed, chunks, |c, _rng, rep| {
            let per = (total + chunks as u64 - 1) / chunks as u64;
            let lo = c as u64 * per;
            let hi = ((c as u64 + 1) * per).min(total);
            let slots: Vec<(usize, usize)> = (0..n).flat_map(|a| (0..n).map(move |b| (a, b))).filter(|(a, b)| selfloops || a != b).collect();
            for mask in lo..hi {
                let edges: Vec<(usize, usize)> = slots.iter().enumerate().filter(|(i, _)| mask >> i & 1 == 1).map(|(_, p)| *p).collect();
                check(rep, n, &edges, if selfloops { "exhaustive" } else { "exhaustive5" }, false);
            }
        });
        rep.merge(r);
    }
    // random part
    let nrand = tier.n(60_000, 2_000_000);
    let r = par_cases(seed ^ 0x18, nrand, |_i, rng, rep| {
        let n = if rng.chance(0.7) { rng.urange(2, 40) } else { rng.urange(40, 300) };
        let e = random_graph(rng, n);
        check(rep, n, &e, "random", n > 60);
    });
    rep.merge(r);
    // long chains / rings on a thread with a large stack (the implementation recurses once per vertex on a path)
    let lens: Vec<usize> = if tier.thorough { vec![1_000, 5_000, 20_000, 100_000, 400_000] } else { vec![1_000, 5_000, 50_000] };
    let deep = std::thread::Builder::new()
        .stack_size(3usize << 30)
        .spawn(move || {
            let mut rep = Report::new();
            for n in lens {
                let chain: Vec<(usize, usize)> = (0..n - 1).map(|i| (i, i + 1)).collect();
                check(&mut rep, n, &chain, "chain", true);
                let mut ring = chain.clone();
                ring.push((n - 1, 0));
                check(&mut rep, n, &ring, "ring", true);
                // two rings joined one way
                let h = n / 2;
                let mut two: Vec<(usize, usize)> = (0..h).map(|i| (i, (i + 1) % h)).collect();
                two.extend((h..n).map(|i| (i, if i + 1 == n { h } else { i + 1 })));
                two.push((0, h));
                check(&mut rep, n, &two, "two_rings", true);
            }
            rep
        });
    match deep.map(|h| h.join()) {
        Ok(Ok(r)) => rep.merge(r),
        _ => rep.inconclusive("deep-recursion worker thread could not be run".into()),
    }
    MonOut {
        report: rep,
        rule: "all digraphs (self loops allowed) on 1..4 vertices run completely (2+16+512+65536; thorough adds all 2^20 loop-free digraphs on 5 vertices); random graphs of 2..300 vertices (one in eight of those up to 80 vertices written to CSV and loaded by Graph::from_files with or without declared counts) in five styles (uniform multigraph, nested cycles, DAG+back edges, grid, sparse with isolated vertices / parallel edges / self loops); chains, rings and joined rings up to 50k (thorough 400k) vertices. non-trivial = more than one component and a component of size >1; distinct by (n, edge list)".into(),
        assumptions: vec![
            "reference = boolean transitive closure (n<=60) or forward/backward BFS per class, on the generator's edge list".into(),
            "long chains are run on a thread with a 3 GiB stack: recursion depth limits are an environment property, not part of C18".into(),
        ],
        floor: 500,
        exhaustive: true,
        explanation: "digraphs on <=4 vertices are enumerated completely; larger graphs are sampled".into(),
    }
}

//! SplitMix64-seeded xoshiro256** so that VERIF_SEED fully determines every workload.

#[derive(Clone, Debug)]
pub struct Rng {
    s: [u64; 4],
}

fn splitmix(x: &mut u64) -> u64 {
    *x = x.wrapping_add(0x9E3779B97F4A7C15);
    let mut z = *x;
    z = (z ^ (z >> 30)).wrapping_mul(0xBF58476D1CE4E5B9);
    z = (z ^ (z >> 27)).wrapping_mul(0x94D049BB133111EB);
    z ^ (z >> 31)
}

impl Rng {
    pub fn new(seed: u64) -> Rng {
        let mut x = seed ^ 0xA5A5_5A5A_DEAD_BEEF;
        let s = [
            splitmix(&mut x),
            splitmix(&mut x),
            splitmix(&mut x),
            splitmix(&mut x),
        ];
        Rng { s }
    }
    /// derive an independent stream (for a thread / a case)
    pub fn fork(&self, tag: u64) -> Rng {
        let mut x = self.s[0] ^ tag.wrapping_mul(0xD1342543DE82EF95) ^ self.s[2].rotate_left(17);
        let s = [
            splitmix(&mut x),
            splitmix(&mut x),
            splitmix(&mut x),
            splitmix(&mut x),
        ];
        Rng { s }
    }
    pub fn next_u64(&mut self) -> u64 {
        let r = self.s[1].wrapping_mul(5).rotate_left(7).wrapping_mul(9);
        let t = self.s[1] << 17;
        self.s[2] ^= self.s[0];
        self.s[3] ^= self.s[1];
        self.s[1] ^= self.s[2];
        self.s[0] ^= self.s[3];
        self.s[2] ^= t;
        self.s[3] = self.s[3].rotate_left(45);
        r
    }
    /// uniform in [0, n)
    pub fn below(&mut self, n: usize) -> usize {
        if n == 0 {
            return 0;
        }
        (self.next_u64() % (n as u64)) as usize
    }
    /// uniform integer in [lo, hi] inclusive
    pub fn range(&mut self, lo: i64, hi: i64) -> i64 {
        if hi <= lo {
            return lo;
        }
        lo + (self.next_u64() % ((hi - lo + 1) as u64)) as i64
    }
    pub fn urange(&mut self, lo: usize, hi: usize) -> usize {
        self.range(lo as i64, hi as i64) as usize
    }
    /// uniform in [0,1)
    pub fn f64(&mut self) -> f64 {
        (self.next_u64() >> 11) as f64 / (1u64 << 53) as f64
    }
    pub fn frange(&mut self, lo: f64, hi: f64) -> f64 {
        lo + (hi - lo) * self.f64()
    }
    /// log-uniform in [lo, hi], lo > 0
    pub fn log_uniform(&mut self, lo: f64, hi: f64) -> f64 {
        (lo.ln() + (hi.ln() - lo.ln()) * self.f64()).exp()
    }
    pub fn chance(&mut self, p: f64) -> bool {
        self.f64() < p
    }
    pub fn pick<'a, T>(&mut self, xs: &'a [T]) -> &'a T {
        &xs[self.below(xs.len())]
    }
    pub fn shuffle<T>(&mut self, xs: &mut [T]) {
        for i in (1..xs.len()).rev() {
            let j = self.below(i + 1);
            xs.swap(i, j);
        }
    }
}

pub fn hash64(bytes: &[u8]) -> u64 {
    // FNV-1a 64
    let mut h: u64 = 0xcbf29ce484222325;
    for b in bytes {
        h ^= *b as u64;
        h = h.wrapping_mul(0x100000001b3);
    }
    h
}

pub fn hash_str(s: &str) -> u64 {
    hash64(s.as_bytes())
}

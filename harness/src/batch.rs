//! shared machinery of the batch-level monitors (C06, C12, C19): application worlds, query batches
//! tagged with unique ids, an event recorder with seeded delay injection, and response projections.
use crate::appgen::{AppSpec, InputPlugin, OutputPlugin};
use crate::rng::Rng;
use crate::run::Alg;
use crate::world::{gen_world, FrontierCfg, TermCfg, WorldParams};
use routee_compass_core::model::cost::vehicle::vehicle_cost_rate::VehicleCostRate;
use routee_compass_core::verif::Event;
use serde_json::{json, Map, Value};
use std::collections::{BTreeMap, HashMap};
use std::sync::atomic::{AtomicU64, Ordering};
use std::sync::Mutex;

#[derive(Clone, Debug)]
pub struct BatchWorldOpts {
    pub max_v: usize,
    pub allow_grid: bool,
    pub allow_rtree: bool,
    pub allow_balancer: bool,
    pub allow_inject: bool,
    pub allow_ksp: bool,
    pub small_iteration_limit: bool,
}

impl Default for BatchWorldOpts {
    fn default() -> Self {
        BatchWorldOpts { max_v: 24, allow_grid: true, allow_rtree: true, allow_balancer: true, allow_inject: true, allow_ksp: false, small_iteration_limit: true }
    }
}

fn simplify_rates(spec: &mut AppSpec) {
    // the TOML / JSON configuration path cannot express combined rates
    for (_, r) in spec.world.cost.vehicle_rates.iter_mut() {
        if let VehicleCostRate::Combined(_) = r {
            *r = VehicleCostRate::Factor { factor: 2.5 };
        }
    }
}

pub fn gen_batch_spec(rng: &mut Rng, o: &BatchWorldOpts) -> AppSpec {
    let mut wp = WorldParams::default();
    wp.net.min_v = 4;
    wp.net.max_v = o.max_v;
    wp.net.p_blocks = 0.35;
    wp.net.metric = true;
    wp.allow_turn_delay = rng.chance(0.3);
    wp.surcharges = false;
    let mut world = gen_world(rng, &wp);
    if rng.chance(0.25) {
        let classes: Vec<u8> = (0..world.net.ne()).map(|_| rng.below(4) as u8).collect();
        world.frontier = FrontierCfg::RoadClass { classes, mapping: vec![] };
    }
    if rng.chance(0.12) {
        world.frontier = crate::restrict::gen_vehicle_cfg(rng, &world.net);
    }
    if o.small_iteration_limit && rng.chance(0.4) {
        world.term = TermCfg::Iterations(rng.urange(2, 12) as u64);
    }
    let alg = if o.allow_ksp && rng.chance(0.3) {
        Alg::SingleVia { k: rng.urange(2, 3), under: Box::new(Alg::Dijkstra), sim: crate::run::Sim::AcceptAll, term: crate::run::KTerm::Default }
    } else {
        crate::run::gen_plain_alg(rng, true)
    };
    let mut spec = AppSpec::basic(world, alg);
    simplify_rates(&mut spec);
    spec.parallelism = *rng.pick(&[1usize, 2, 3, 4, 5, 7, 8, 15, 16, 17, 32]);
    spec.edge_oriented = rng.chance(0.15);
    let mut ins = vec![];
    if o.allow_inject && rng.chance(0.25) {
        ins.push(InputPlugin::Inject { key: "injected".into(), value_json: "{\"by\": \"config\", \"n\": 3}".into(), overwrite: if rng.chance(0.5) { Some(rng.chance(0.5)) } else { None } });
    }
    if o.allow_grid && rng.chance(0.5) {
        ins.push(InputPlugin::GridSearch);
    }
    if o.allow_rtree && !spec.edge_oriented && rng.chance(0.4) {
        let tol = if rng.chance(0.5) { Some((rng.frange(200.0, 5000.0), if rng.chance(0.5) { Some("meters".to_string()) } else { None })) } else { None };
        ins.push(InputPlugin::VertexRtree { tolerance: tol });
    }
    if o.allow_balancer && rng.chance(0.4) {
        ins.push(match rng.below(3) {
            0 => InputPlugin::LoadBalancerHaversine,
            1 => InputPlugin::LoadBalancerNumeric { column: if rng.chance(0.5) { Some("w".into()) } else { None } },
            _ => InputPlugin::LoadBalancerCategorical { column: "size".into(), mapping: vec![("small".into(), 1.0), ("large".into(), 50.0), ("zero".into(), 0.0)], default: if rng.chance(0.6) { Some(5.0) } else { None } },
        });
    }
    spec.input_plugins = ins;
    spec.output_plugins = vec![OutputPlugin::Summary, OutputPlugin::Traversal { route: Some(if rng.chance(0.5) { "edge_id".into() } else { "json".into() }), tree: None }];
    spec
}

pub fn has_plugin(spec: &AppSpec, f: impl Fn(&InputPlugin) -> bool) -> bool {
    spec.input_plugins.iter().any(f)
}

#[derive(Clone, Debug, PartialEq)]
pub enum QKind {
    Valid,
    Grid,
    Malformed,
}

/// a valid query for this application (coordinates when a matcher is configured, ids otherwise)
pub fn valid_query(rng: &mut Rng, spec: &AppSpec, qid: &str) -> Value {
    let net = &spec.world.net;
    let mut q = Map::new();
    q.insert("qid".into(), json!(qid));
    let o = rng.below(net.nv());
    let mut d = rng.below(net.nv());
    if d == o {
        d = (d + 1) % net.nv();
    }
    let coords = has_plugin(spec, |p| matches!(p, InputPlugin::VertexRtree { .. } | InputPlugin::LoadBalancerHaversine));
    if spec.edge_oriented {
        let oe = rng.below(net.ne());
        let mut de = rng.below(net.ne());
        if de == oe {
            de = (de + 1) % net.ne();
        }
        q.insert("origin_edge".into(), json!(oe));
        if rng.chance(0.9) {
            q.insert("destination_edge".into(), json!(de));
        }
    } else if has_plugin(spec, |p| matches!(p, InputPlugin::VertexRtree { .. })) {
        // a few metres next to the vertex
        q.insert("origin_x".into(), json!(net.coords[o].0 as f64 + 1e-5));
        q.insert("origin_y".into(), json!(net.coords[o].1 as f64 - 1e-5));
        q.insert("destination_x".into(), json!(net.coords[d].0 as f64 - 1e-5));
        q.insert("destination_y".into(), json!(net.coords[d].1 as f64 + 1e-5));
    } else {
        q.insert("origin_vertex".into(), json!(o));
        if rng.chance(0.9) {
            q.insert("destination_vertex".into(), json!(d));
        }
    }
    if coords && !q.contains_key("origin_x") {
        q.insert("origin_x".into(), json!(net.coords[o].0));
        q.insert("origin_y".into(), json!(net.coords[o].1));
        q.insert("destination_x".into(), json!(net.coords[d].0));
        q.insert("destination_y".into(), json!(net.coords[d].1));
    }
    if has_plugin(spec, |p| matches!(p, InputPlugin::LoadBalancerNumeric { column: Some(_) })) {
        // any JSON number: fractions and whole numbers in either spelling
        q.insert("w".into(), rng.pick(&[json!(0.0), json!(1.0), json!(1), json!(7.5), json!(1e6), json!(40u64)]).clone());
    }
    if has_plugin(spec, |p| matches!(p, InputPlugin::LoadBalancerNumeric { column: None })) {
        q.insert("query_weight_estimate".into(), rng.pick(&[json!(0.0), json!(1.0), json!(3), json!(1e6), json!(12u64)]).clone());
    }
    if has_plugin(spec, |p| matches!(p, InputPlugin::LoadBalancerCategorical { .. })) {
        q.insert("size".into(), json!(*rng.pick(&["small", "large", "zero", "unheard_of"])));
    }
    if matches!(spec.world.frontier, FrontierCfg::Vehicle { .. }) {
        q.insert("vehicle_parameters".into(), crate::restrict::random_vehicle_parameters(rng));
    }
    if matches!(spec.world.frontier, FrontierCfg::RoadClass { .. }) && rng.chance(0.7) {
        q.insert("road_classes".into(), json!((0..4u8).filter(|_| rng.chance(0.7)).collect::<Vec<_>>()));
    }
    // per-query objective overrides
    if rng.chance(0.3) {
        let mut w = Map::new();
        w.insert("distance".into(), json!(*rng.pick(&[0.0, 1.0, 2.5])));
        if spec.world.uses_time() {
            w.insert("time".into(), json!(*rng.pick(&[0.5, 1.0, 4.0])));
        } else if w["distance"] == json!(0.0) {
            w.insert("distance".into(), json!(1.0));
        }
        q.insert("weights".into(), Value::Object(w));
    }
    if rng.chance(0.15) {
        q.insert("weight_factor".into(), json!(*rng.pick(&[0.0, 1.0, 2.0])));
    }
    Value::Object(q)
}

pub fn grid_query(rng: &mut Rng, spec: &AppSpec, qid: &str) -> (Value, usize) {
    let mut q = valid_query(rng, spec, qid);
    let mut grid = Map::new();
    let mut n = 1;
    let a = rng.urange(1, 3);
    grid.insert("variant".into(), json!((0..a).map(|i| format!("v{i}")).collect::<Vec<_>>()));
    n *= a;
    if rng.chance(0.6) {
        let opts: Vec<Value> = if spec.world.uses_time() {
            vec![json!({"weights": {"distance": 1.0, "time": 0.0}}), json!({"weights": {"distance": 0.0, "time": 1.0}}), json!({"weights": {"distance": 1.0, "time": 1.0}})]
        } else {
            vec![json!({"weights": {"distance": 1.0}}), json!({"weights": {"distance": 3.0}})]
        };
        let k = rng.urange(1, opts.len());
        grid.insert("objective".into(), json!(opts[..k].to_vec()));
        n *= k;
    }
    // a third axis that sorts between the other two (key order is the enumeration order of the plugin)
    if rng.chance(0.4) {
        let k = rng.urange(1, 3);
        grid.insert("tag".into(), json!((0..k).map(|i| format!("t{i}")).collect::<Vec<_>>()));
        n *= k;
    }
    if rng.chance(0.3) {
        grid.insert("not_an_axis".into(), json!(5));
    }
    q["grid_search"] = Value::Object(grid);
    (q, n)
}

const MALFORMED: [&str; 16] = [
    "vehicle-parameters-missing", "vehicle-parameters-ill-typed",
    "missing-origin", "origin-string", "origin-negative", "origin-out-of-range", "destination-out-of-range", "origin-float", "weights-not-object",
    "unknown-road-class-type", "not-an-object-number", "not-an-object-array", "not-an-object-string", "null", "weight-estimate-not-numeric", "same-origin-destination",
];

pub fn malformed_query(rng: &mut Rng, spec: &AppSpec, qid: &str) -> (Value, &'static str) {
    let kind = *rng.pick(&MALFORMED);
    let net = &spec.world.net;
    let mut q = valid_query(rng, spec, qid);
    let (ok, dk) = if spec.edge_oriented { ("origin_edge", "destination_edge") } else { ("origin_vertex", "destination_vertex") };
    let uses_coords = q.get("origin_x").is_some() && !q.as_object().map(|o| o.contains_key(ok)).unwrap_or(false);
    let (okey, dkey) = if uses_coords { ("origin_x", "destination_x") } else { (ok, dk) };
    match kind {
        "missing-origin" => {
            q.as_object_mut().unwrap().remove(okey);
        }
        "origin-string" => q[okey] = json!("zero"),
        "origin-negative" => q[okey] = json!(-3),
        "origin-out-of-range" => q[okey] = if uses_coords { json!(1234.5) } else { json!(net.nv().max(net.ne()) + 1000) },
        "destination-out-of-range" => q[dkey] = if uses_coords { json!(-999.0) } else { json!(usize::MAX as u64) },
        "origin-float" => q[okey] = if uses_coords { json!(null) } else { json!(1.5) },
        "vehicle-parameters-missing" => {
            q.as_object_mut().unwrap().remove("vehicle_parameters");
        }
        "vehicle-parameters-ill-typed" => {
            let mut vp = crate::restrict::random_vehicle_parameters(rng);
            match rng.below(9) {
                0 => vp = json!("a truck"),
                1 => vp = json!([1, 2, 3]),
                2 => vp["height"] = json!("tall"),
                3 => vp["height"] = json!([3.5]),
                4 => vp["width"] = json!([2.5, "furlongs"]),
                5 => vp["number_of_axles"] = json!(0),
                6 => vp["number_of_axles"] = json!(-2),
                7 => vp["total_weight"] = json!([-5.0, "kg"]),
                _ => {
                    vp.as_object_mut().unwrap().remove("total_weight");
                }
            }
            q["vehicle_parameters"] = vp;
        }
        "weights-not-object" => q["weights"] = json!([1, 2]),
        "unknown-road-class-type" => q["road_classes"] = json!({"a": 1}),
        "not-an-object-number" => q = json!(42),
        "not-an-object-array" => q = json!([{"qid": qid, "origin_vertex": 0}]),
        "not-an-object-string" => q = json!(format!("query {qid}")),
        "null" => q = Value::Null,
        "weight-estimate-not-numeric" => q["query_weight_estimate"] = json!("heavy"),
        _ => {
            if uses_coords {
                q["destination_x"] = q["origin_x"].clone();
                q["destination_y"] = q["origin_y"].clone();
            } else {
                q[dk] = q[ok].clone();
            }
        }
    }
    (q, kind)
}

/// (query, expected number of responses, kind label)
pub fn gen_batch(rng: &mut Rng, spec: &AppSpec, n: usize, p_malformed: f64, prefix: &str) -> Vec<(Value, usize, String)> {
    let grid = has_plugin(spec, |p| matches!(p, InputPlugin::GridSearch));
    let mut batch: Vec<(Value, usize, String)> = (0..n)
        .map(|i| {
            let qid = format!("{prefix}{i}");
            if rng.chance(p_malformed) {
                let (q, k) = malformed_query(rng, spec, &qid);
                (q, 1, format!("malformed:{k}"))
            } else if grid && rng.chance(0.3) {
                let (q, m) = grid_query(rng, spec, &qid);
                (q, m, "grid".to_string())
            } else {
                (valid_query(rng, spec, &qid), 1, "valid".to_string())
            }
        })
        .collect();
    // the same query may be submitted more than once (verbatim, same id): every copy is a query of its own. copies are
    // placed next to the original, `parallelism` positions away (same bin under round-robin) or anywhere
    if !batch.is_empty() && rng.chance(0.3) {
        for _ in 0..rng.urange(1, 4) {
            let i = rng.below(batch.len());
            let copy = batch[i].clone();
            let at = match rng.below(3) {
                0 => i + 1,
                1 => (i + spec.parallelism).min(batch.len()),
                _ => rng.below(batch.len() + 1),
            };
            batch.insert(at, copy);
        }
    }
    batch
}

// ------------------------------------------------------------------------------------------
// recorder
// ------------------------------------------------------------------------------------------

#[derive(Clone, Debug)]
pub struct Rec {
    pub seq: u64,
    pub thread: u64,
    pub kind: &'static str,
    pub qid: String,
}

pub struct Recorder {
    pub events: Mutex<Vec<Rec>>,
    pub seq: AtomicU64,
    pub delay_seed: u64,
    pub delay: bool,
    pub batches: Mutex<Vec<Vec<usize>>>,
    pub cache_miss: AtomicU64,
    pub cache_hit: AtomicU64,
    /// per-query logical budgets for searches running on the application's worker threads (0 = off)
    pub budget: crate::hooks::Budget,
    /// (vertices, edges) of the network: budgets are re-derived from the k the algorithm reports (a query may override k)
    pub net_size: Option<(usize, usize)>,
}

thread_local! {
    static TID: u64 = {
        static NEXT: AtomicU64 = AtomicU64::new(1);
        NEXT.fetch_add(1, Ordering::Relaxed)
    };
    static DELAY_RNG: std::cell::RefCell<Option<Rng>> = const { std::cell::RefCell::new(None) };
    /// (loop tops, ksp outer turns, ksp inner turns) of the query currently running on this thread
    static STEPS: std::cell::Cell<(u64, u64, u64)> = const { std::cell::Cell::new((0, 0, 0)) };
    /// the k in force for the query running on this thread, as reported by the k-shortest-path loop itself
    static KEFF: std::cell::Cell<usize> = const { std::cell::Cell::new(0) };
}

fn qid_of(v: &Value) -> String {
    let q = if v.get("request").is_some() { &v["request"] } else { v };
    match q.get("qid") {
        Some(Value::String(s)) => {
            // expanded grid queries share the qid; add the variant for identification
            let var = format!("{}/{}", q.get("variant").and_then(|x| x.as_str()).unwrap_or(""), q.get("tag").and_then(|x| x.as_str()).unwrap_or(""));
            let obj = q.get("weights").map(|w| w.to_string()).unwrap_or_default();
            format!("{s}|{var}|{obj}")
        }
        _ => "?".to_string(),
    }
}

impl Recorder {
    pub fn new(delay_seed: u64, delay: bool) -> Recorder {
        Recorder { events: Mutex::new(vec![]), seq: AtomicU64::new(0), delay_seed, delay, batches: Mutex::new(vec![]), cache_miss: AtomicU64::new(0), cache_hit: AtomicU64::new(0), budget: crate::hooks::Budget::default(), net_size: None }
    }
    pub fn with_budget(mut self, b: crate::hooks::Budget) -> Recorder {
        self.budget = b;
        self
    }
    /// budgets follow the k the running algorithm reports: work proportional to a requested k is not "unbounded"
    pub fn with_net_size(mut self, nv: usize, ne: usize) -> Recorder {
        self.net_size = Some((nv, ne));
        self
    }
    fn step(&self, which: usize, what: &str) {
        let (mut a, mut b, mut c) = STEPS.with(|s| s.get());
        match which {
            0 => a += 1,
            1 => b += 1,
            _ => c += 1,
        }
        STEPS.with(|s| s.set((a, b, c)));
        let mut lim = self.budget;
        let keff = KEFF.with(|k| k.get());
        if let (Some((nv, ne)), true) = (self.net_size, keff > 0 && lim.steps > 0) {
            let scaled = crate::run::step_budget(nv, ne, keff.min(1_000_000));
            lim.steps = lim.steps.max(scaled.steps);
            lim.ksp_outer = lim.ksp_outer.max(scaled.ksp_outer);
            lim.ksp_inner = lim.ksp_inner.max(scaled.ksp_inner);
        }
        let over = (lim.steps > 0 && a + b + c > lim.steps) || (lim.ksp_outer > 0 && b > lim.ksp_outer) || (lim.ksp_inner > 0 && c > lim.ksp_inner);
        if over {
            STEPS.with(|s| s.set((0, 0, 0)));
            std::panic::panic_any(crate::hooks::BudgetExceeded { steps: a + b + c, limit: self.budget.steps, last: what.to_string() });
        }
    }
    fn push(&self, kind: &'static str, qid: String) {
        let seq = self.seq.fetch_add(1, Ordering::SeqCst);
        let thread = TID.with(|t| *t);
        if let Ok(mut e) = self.events.lock() {
            e.push(Rec { seq, thread, kind, qid });
        }
    }
    fn maybe_delay(&self) {
        if !self.delay {
            return;
        }
        let tid = TID.with(|t| *t);
        DELAY_RNG.with(|r| {
            let mut b = r.borrow_mut();
            if b.is_none() {
                *b = Some(Rng::new(self.delay_seed ^ tid.wrapping_mul(0x9E3779B97F4A7C15)));
            }
            let rng = b.as_mut().unwrap();
            match rng.below(10) {
                0..=3 => {}
                4..=6 => std::thread::yield_now(),
                7 | 8 => std::thread::sleep(std::time::Duration::from_micros(rng.urange(20, 400) as u64)),
                _ => std::thread::sleep(std::time::Duration::from_micros(rng.urange(400, 2000) as u64)),
            }
        });
    }
    /// the application-level sink: records and injects delays *between* critical sections only
    pub fn on_event(&self, ev: &Event<'_>) {
        match ev {
            Event::LoadBalanced(b) => {
                if let Ok(mut g) = self.batches.lock() {
                    *g = b.iter().map(|x| vec![x.len()]).map(|v| v).collect();
                }
            }
            Event::LoopTop { .. } => self.step(0, "LoopTop"),
            Event::KspOuter { algorithm, k, .. } => {
                KEFF.with(|c| c.set(*k));
                self.step(1, &format!("KspOuter({algorithm})"))
            }
            Event::KspInner { algorithm, .. } => self.step(2, &format!("KspInner({algorithm})")),
            Event::QueryStart(q) => {
                STEPS.with(|s| s.set((0, 0, 0)));
                KEFF.with(|c| c.set(0));
                self.push("start", qid_of(q));
                self.maybe_delay();
            }
            Event::QueryEnd(r) => {
                self.push("end", qid_of(r));
                self.maybe_delay();
            }
            Event::BeforeWrite(r) => {
                self.push("before_write", qid_of(r));
                self.maybe_delay();
            }
            Event::AfterWrite(r) => {
                self.push("after_write", qid_of(r));
            }
            Event::SinkLocked => self.push("sink_locked", String::new()),
            Event::SinkUnlocking { .. } => self.push("sink_unlocking", String::new()),
            Event::CacheGet { hit, .. } => {
                if *hit {
                    self.cache_hit.fetch_add(1, Ordering::Relaxed);
                } else {
                    self.cache_miss.fetch_add(1, Ordering::Relaxed);
                    self.maybe_delay();
                }
            }
            _ => {}
        }
    }
    pub fn reset_thread_delay_rngs() {
        DELAY_RNG.with(|r| *r.borrow_mut() = None);
    }
    /// (events, max in-flight queries, completion order, thread assignment)
    pub fn summarise(&self) -> RunTrace {
        let ev = self.events.lock().map(|e| e.clone()).unwrap_or_default();
        let mut inflight = 0i64;
        let mut max_inflight = 0i64;
        let mut completion = vec![];
        let mut assignment: BTreeMap<String, u64> = BTreeMap::new();
        let mut writers = vec![];
        let mut threads: HashMap<u64, u64> = HashMap::new();
        for r in &ev {
            match r.kind {
                "start" => {
                    inflight += 1;
                    max_inflight = max_inflight.max(inflight);
                    assignment.insert(r.qid.clone(), r.thread);
                }
                "end" => {
                    inflight -= 1;
                    completion.push(r.qid.clone());
                }
                "sink_locked" => writers.push(r.thread),
                _ => {}
            }
            *threads.entry(r.thread).or_insert(0) += 1;
        }
        let switches = writers.windows(2).filter(|w| w[0] != w[1]).count();
        // thread ids are per process run; normalise to first-appearance order so that assignments compare
        let mut norm: HashMap<u64, usize> = HashMap::new();
        let assignment_norm: Vec<(String, usize)> = assignment
            .iter()
            .map(|(q, t)| {
                let n = norm.len();
                (q.clone(), *norm.entry(*t).or_insert(n))
            })
            .collect();
        RunTrace { n_events: ev.len(), max_inflight: max_inflight as usize, completion, assignment: assignment_norm, writer_switches: switches, n_threads: threads.len(), write_order: writers.len() }
    }
}

#[derive(Clone, Debug, Default)]
pub struct RunTrace {
    pub n_events: usize,
    pub max_inflight: usize,
    pub completion: Vec<String>,
    pub assignment: Vec<(String, usize)>,
    pub writer_switches: usize,
    pub n_threads: usize,
    pub write_order: usize,
}

// ------------------------------------------------------------------------------------------
// projections
// ------------------------------------------------------------------------------------------

fn round_sig(x: f64) -> String {
    if x == 0.0 || !x.is_finite() {
        return format!("{x}");
    }
    // 9 significant digits
    format!("{:.8e}", x)
}

fn project_route(r: &Value) -> Value {
    let path = match &r["path"] {
        Value::Array(a) => Value::Array(a.iter().map(|e| if e.is_object() { e["edge_id"].clone() } else { e.clone() }).collect()),
        // geojson: the feature ids (properties carry the state vector, whose slot order is not fixed)
        Value::Object(o) if o.contains_key("features") => Value::Array(o["features"].as_array().map(|f| f.iter().map(|x| x["id"].clone()).collect()).unwrap_or_default()),
        o => o.clone(),
    };
    let mut summary: Vec<(String, String)> = r["traversal_summary"].as_object().map(|o| o.iter().map(|(k, v)| (k.clone(), round_sig(v.as_f64().unwrap_or(f64::NAN)))).collect()).unwrap_or_default();
    summary.sort();
    json!({"path": path, "total_cost": round_sig(r["cost"]["total_cost"].as_f64().unwrap_or(f64::NAN)), "final_state": summary})
}

/// canonical projection of a response: request (as submitted), ok/error + text, route path, cost, final state
pub fn project(resp: &Value) -> Value {
    let err = resp.get("error").map(|e| e.to_string());
    let route = match resp.get("route") {
        None | Some(Value::Null) => Value::Null,
        Some(Value::Array(a)) => {
            // alternatives after the first are returned in an order that depends on hash-map iteration when
            // their queue priorities tie (e.g. floored costs): compare them as a multiset
            let mut v: Vec<Value> = a.iter().map(project_route).collect();
            if v.len() > 2 {
                v[1..].sort_by_key(|x| x.to_string());
            }
            Value::Array(v)
        }
        Some(o) => project_route(o),
    };
    json!({"error": err, "route": route})
}

/// the response's request restricted to the fields of the submitted query (plugins may add fields)
pub fn request_superset(request: &Value, query: &Value) -> bool {
    match (request, query) {
        (Value::Object(r), Value::Object(q)) => {
            // fields that a grid option or the load balancer legitimately (over)writes
            let mut free: Vec<String> = vec!["grid_search".into(), "query_weight_estimate".into()];
            if let Some(g) = q.get("grid_search").and_then(|g| g.as_object()) {
                for (axis, opts) in g {
                    free.push(axis.clone());
                    if let Some(a) = opts.as_array() {
                        for o in a {
                            if let Some(m) = o.as_object() {
                                free.extend(m.keys().cloned());
                            }
                        }
                    }
                }
            }
            q.iter().all(|(k, v)| free.contains(k) || r.get(k) == Some(v))
        }
        // an array offered as a query is flattened by the plugin pipeline: its elements are answered
        (r, Value::Array(a)) => a.iter().any(|e| request_superset(r, e)) || r == query,
        (a, b) => a == b,
    }
}

pub fn expansion_key(resp: &Value) -> String {
    qid_of(resp)
}

//! event sink installed into routee_compass_core::verif. dispatches to a thread-local context
//! (core-level monitors, one per worker thread) or to a process-wide application sink.
use routee_compass_core::verif::{self, Event};
use std::cell::RefCell;
use std::panic::{catch_unwind, AssertUnwindSafe};
use std::sync::{Arc, Once, RwLock};

/// compact, owned copy of the search-related events
#[derive(Clone, Debug, PartialEq)]
pub enum Ev {
    SearchStart { source: usize, target: Option<usize>, reverse: bool },
    LoopTop { iterations: u64, tree_len: usize },
    Pop { vertex: usize, g: f64 },
    FrontierReject { edge: usize },
    Relax { edge: usize, key_vertex: usize, terminal_vertex: usize, edge_cost: f64, tentative: f64, existing: f64, accepted: bool },
    SearchEnd { iterations: u64, tree_len: usize },
    KspOuter { algorithm: &'static str, accepted: usize, k: usize },
    KspInner { algorithm: &'static str, index: usize },
}

/// private payload used to unwind out of library code when the logical step budget is exceeded
#[derive(Debug, Clone)]
pub struct BudgetExceeded {
    pub steps: u64,
    pub limit: u64,
    pub last: String,
}

/// logical budgets of one monitored call (0 = unlimited)
#[derive(Clone, Copy, Debug, Default)]
pub struct Budget {
    /// all loop tops + k-shortest-path loop turns together
    pub steps: u64,
    /// turns of a k-shortest-path outer loop
    pub ksp_outer: u64,
    /// spur / alternative evaluations of a k-shortest-path algorithm
    pub ksp_inner: u64,
}

impl From<u64> for Budget {
    fn from(steps: u64) -> Budget {
        Budget { steps, ksp_outer: 0, ksp_inner: 0 }
    }
}

#[derive(Default)]
pub struct Ctx {
    pub steps: u64,
    pub step_limit: u64,
    pub ksp_outer_limit: u64,
    pub ksp_inner_limit: u64,
    pub record: bool,
    pub events: Vec<Ev>,
    pub n_loop_top: u64,
    pub n_pop: u64,
    pub n_relax: u64,
    pub n_ksp_outer: u64,
    pub n_ksp_inner: u64,
    pub n_searches: u64,
    /// edge costs observed in live relaxations that were not finite and > 0
    pub bad_edge_costs: Vec<(usize, f64)>,
    pub max_tree_len: usize,
    pub max_iterations: u64,
    /// when set, every LoopTop is stamped with the time elapsed since the context was created
    pub time_loop_tops: bool,
    pub t0: Option<std::time::Instant>,
    /// harness clock when the call returned (the clock starts before the call)
    pub returned_after: std::time::Duration,
    pub loop_times: Vec<(u64, std::time::Duration)>,
}

thread_local! {
    static CTX: RefCell<Option<Ctx>> = const { RefCell::new(None) };
    static LAST_PANIC: RefCell<Option<String>> = const { RefCell::new(None) };
}

pub type AppSink = Arc<dyn for<'a> Fn(&Event<'a>) + Send + Sync>;
static APP_SINK: RwLock<Option<AppSink>> = RwLock::new(None);
static INSTALL: Once = Once::new();

impl Ctx {
    fn on_event(&mut self, ev: &Event<'_>) {
        let owned = match ev {
            Event::SearchStart { source, target, reverse } => {
                self.n_searches += 1;
                if self.time_loop_tops {
                    // time runs from the start of the (latest) search, a moment before its own clock starts
                    self.t0 = Some(std::time::Instant::now());
                }
                Some(Ev::SearchStart { source: *source, target: *target, reverse: *reverse })
            }
            Event::LoopTop { iterations, tree_len } => {
                self.n_loop_top += 1;
                self.steps += 1;
                if *tree_len > self.max_tree_len {
                    self.max_tree_len = *tree_len;
                }
                if *iterations > self.max_iterations {
                    self.max_iterations = *iterations;
                }
                if self.time_loop_tops {
                    if let Some(t0) = self.t0 {
                        self.loop_times.push((*iterations, t0.elapsed()));
                    }
                }
                Some(Ev::LoopTop { iterations: *iterations, tree_len: *tree_len })
            }
            Event::Pop { vertex, g } => {
                self.n_pop += 1;
                Some(Ev::Pop { vertex: *vertex, g: *g })
            }
            Event::FrontierReject { edge } => Some(Ev::FrontierReject { edge: *edge }),
            Event::Relax { edge, key_vertex, terminal_vertex, edge_cost, tentative, existing, accepted } => {
                self.n_relax += 1;
                if !(edge_cost.is_finite() && *edge_cost > 0.0) && self.bad_edge_costs.len() < 16 {
                    self.bad_edge_costs.push((*edge, *edge_cost));
                }
                Some(Ev::Relax {
                    edge: *edge,
                    key_vertex: *key_vertex,
                    terminal_vertex: *terminal_vertex,
                    edge_cost: *edge_cost,
                    tentative: *tentative,
                    existing: *existing,
                    accepted: *accepted,
                })
            }
            Event::SearchEnd { iterations, tree_len } => {
                Some(Ev::SearchEnd { iterations: *iterations, tree_len: *tree_len })
            }
            Event::KspOuter { algorithm, accepted, k } => {
                self.n_ksp_outer += 1;
                self.steps += 1;
                Some(Ev::KspOuter { algorithm, accepted: *accepted, k: *k })
            }
            Event::KspInner { algorithm, index } => {
                self.n_ksp_inner += 1;
                self.steps += 1;
                Some(Ev::KspInner { algorithm, index: *index })
            }
            _ => None,
        };
        if self.record {
            if let Some(o) = owned.clone() {
                if self.events.len() < 400_000 {
                    self.events.push(o);
                }
            }
        }
        let over = if self.step_limit > 0 && self.steps > self.step_limit {
            Some((self.steps, self.step_limit))
        } else if self.ksp_outer_limit > 0 && self.n_ksp_outer > self.ksp_outer_limit {
            Some((self.n_ksp_outer, self.ksp_outer_limit))
        } else if self.ksp_inner_limit > 0 && self.n_ksp_inner > self.ksp_inner_limit {
            Some((self.n_ksp_inner, self.ksp_inner_limit))
        } else {
            None
        };
        if let Some((steps, limit)) = over {
            let last = format!("{:?}", owned);
            let payload = BudgetExceeded { steps, limit, last };
            // disarm so that unwinding code that emits further events does not double panic
            self.step_limit = 0;
            self.ksp_outer_limit = 0;
            self.ksp_inner_limit = 0;
            std::panic::panic_any(payload);
        }
    }
}

pub fn install() {
    INSTALL.call_once(|| {
        let quiet = std::env::var("VERIF_DEBUG").is_err();
        let prev = std::panic::take_hook();
        std::panic::set_hook(Box::new(move |info| {
            if info.payload().downcast_ref::<BudgetExceeded>().is_some() {
                return;
            }
            let msg = if let Some(s) = info.payload().downcast_ref::<&str>() {
                s.to_string()
            } else if let Some(s) = info.payload().downcast_ref::<String>() {
                s.clone()
            } else {
                "non-string panic payload".to_string()
            };
            let loc = info
                .location()
                .map(|l| format!("{}:{}", l.file(), l.line()))
                .unwrap_or_default();
            LAST_PANIC.with(|p| *p.borrow_mut() = Some(format!("{msg} @ {loc}")));
            if !quiet {
                prev(info);
            }
        }));
        let sink: verif::Sink = Arc::new(|ev: &Event<'_>| {
            let handled = CTX.with(|c| {
                if let Ok(mut b) = c.try_borrow_mut() {
                    if let Some(ctx) = b.as_mut() {
                        ctx.on_event(ev);
                        return true;
                    }
                }
                false
            });
            if !handled {
                let s = {
                    let g = match APP_SINK.read() {
                        Ok(g) => g,
                        Err(p) => p.into_inner(),
                    };
                    g.clone()
                };
                if let Some(s) = s {
                    s(ev);
                }
            }
        });
        verif::set_sink(Some(sink));
    });
}

pub fn set_app_sink(s: Option<AppSink>) {
    let mut g = match APP_SINK.write() {
        Ok(g) => g,
        Err(p) => p.into_inner(),
    };
    *g = s;
}

#[derive(Debug, Clone)]
pub enum Caught {
    Budget(BudgetExceeded),
    Panic(String),
}

/// run `f` on this thread with a hook context (logical step budget, optional event recording).
/// returns what `f` returned, or how it unwound, plus the context with everything observed.
pub fn with_ctx<R>(budget: impl Into<Budget>, record: bool, f: impl FnOnce() -> R) -> (Result<R, Caught>, Ctx) {
    with_ctx_timed(budget, record, false, f)
}

pub fn with_ctx_timed<R>(budget: impl Into<Budget>, record: bool, timed: bool, f: impl FnOnce() -> R) -> (Result<R, Caught>, Ctx) {
    install();
    let b: Budget = budget.into();
    CTX.with(|c| {
        *c.borrow_mut() = Some(Ctx {
            step_limit: b.steps,
            ksp_outer_limit: b.ksp_outer,
            ksp_inner_limit: b.ksp_inner,
            record,
            time_loop_tops: timed,
            t0: Some(std::time::Instant::now()),
            ..Default::default()
        });
    });
    LAST_PANIC.with(|p| *p.borrow_mut() = None);
    let r = catch_unwind(AssertUnwindSafe(f));
    let mut ctx = CTX.with(|c| c.borrow_mut().take()).unwrap_or_default();
    ctx.returned_after = ctx.t0.map(|t| t.elapsed()).unwrap_or_default();
    let res = match r {
        Ok(v) => Ok(v),
        Err(payload) => {
            if let Some(b) = payload.downcast_ref::<BudgetExceeded>() {
                Err(Caught::Budget(b.clone()))
            } else {
                let msg = LAST_PANIC
                    .with(|p| p.borrow_mut().take())
                    .unwrap_or_else(|| "panic (message unavailable)".to_string());
                Err(Caught::Panic(msg))
            }
        }
    };
    (res, ctx)
}

/// catch a panic without a hook context (used for non-search code: plugins, containers)
pub fn catch<R>(f: impl FnOnce() -> R) -> Result<R, String> {
    install();
    LAST_PANIC.with(|p| *p.borrow_mut() = None);
    match catch_unwind(AssertUnwindSafe(f)) {
        Ok(v) => Ok(v),
        Err(payload) => {
            if let Some(b) = payload.downcast_ref::<BudgetExceeded>() {
                return Err(format!("budget exceeded: {:?}", b));
            }
            Err(LAST_PANIC
                .with(|p| p.borrow_mut().take())
                .unwrap_or_else(|| "panic (message unavailable)".to_string()))
        }
    }
}

/// panic message reduced to a stable signature fragment: message prefix + source file name
pub fn panic_sig(msg: &str) -> String {
    let (m, loc) = match msg.rsplit_once(" @ ") {
        Some((m, l)) => (m, l),
        None => (msg, ""),
    };
    let file = loc.rsplit('/').next().unwrap_or("").split(':').next().unwrap_or("");
    // strip digits so that indices / lengths in messages do not vary the signature
    let m: String = m.chars().take(48).map(|c| if c.is_ascii_digit() { '#' } else { c }).collect();
    format!("panic:{m}@{file}")
}

pub mod rng;
pub mod report;
pub mod hooks;
pub mod world;
pub mod run;
pub mod par;
pub mod searchcase;
pub mod restrict;
pub mod gen {
    pub mod net;
}
pub mod oracle {
    pub mod graph;
    pub mod route;
    pub mod units;
}
pub mod mon;

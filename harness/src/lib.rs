pub mod rng;
pub mod report;
pub mod hooks;
pub mod world;
pub mod worldjson;
pub mod appgen;
pub mod batch;
pub mod run;
pub mod par;
pub mod searchcase;
pub mod restrict;
pub mod shipped;
pub mod gen {
    pub mod net;
}
pub mod oracle {
    pub mod graph;
    pub mod route;
    pub mod units;
}
pub mod mon;

/// root of the verification tree (for directed cases); set once by main
pub static ROOT: std::sync::OnceLock<String> = std::sync::OnceLock::new();
pub fn root() -> String {
    ROOT.get().cloned().unwrap_or_else(|| "/verif".to_string())
}

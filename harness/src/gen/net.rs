//! seeded road-network generator. `RefNet` is the generator's own description and is the source
//! of truth for every oracle; the repo's `Graph` is built from it (directly or through files).
use crate::rng::Rng;
use routee_compass_core::model::network::{Edge, EdgeId, Graph, Vertex, VertexId};
use routee_compass_core::util::compact_ordered_hash_map::CompactOrderedHashMap;
use routee_compass_core::util::geo::haversine;
use serde_json::{json, Value};
use std::io::Write;

#[derive(Clone, Debug)]
pub struct RefEdge {
    pub src: usize,
    pub dst: usize,
    pub len_m: f64,
}

#[derive(Clone, Debug, Default)]
pub struct RefNet {
    pub coords: Vec<(f32, f32)>,
    pub edges: Vec<RefEdge>,
    pub motifs: Vec<String>,
    pub metric: bool,
}

#[derive(Clone, Debug)]
pub struct NetParams {
    pub min_v: usize,
    pub max_v: usize,
    /// lengths >= great-circle distance (+slack) so that the haversine heuristic is admissible
    pub metric: bool,
    /// all vertices share one coordinate (heuristic identically zero)
    pub colocated: bool,
    /// probability of generating more than one weak block
    pub p_blocks: f64,
    pub allow_self_loops: bool,
    pub allow_parallel: bool,
}

impl Default for NetParams {
    fn default() -> Self {
        NetParams {
            min_v: 2,
            max_v: 30,
            metric: true,
            colocated: false,
            p_blocks: 0.3,
            allow_self_loops: true,
            allow_parallel: true,
        }
    }
}

pub fn hav_m(a: (f32, f32), b: (f32, f32)) -> f64 {
    use routee_compass_core::model::unit::as_f64::AsF64;
    haversine::haversine_distance_meters(a.0, a.1, b.0, b.1)
        .map(|d| d.as_f64())
        .unwrap_or(0.0)
}

/// independent f64 haversine (same earth radius as the repo) used as the physics oracle
pub fn hav_m_f64(a: (f64, f64), b: (f64, f64)) -> f64 {
    let r = 6_371_000.0f64;
    let (lat1, lat2) = (a.1.to_radians(), b.1.to_radians());
    let dlat = lat2 - lat1;
    let dlon = (b.0 - a.0).to_radians();
    let h = (dlat / 2.0).sin().powi(2) + (dlon / 2.0).sin().powi(2) * lat1.cos() * lat2.cos();
    2.0 * r * h.sqrt().asin()
}

impl RefNet {
    pub fn nv(&self) -> usize {
        self.coords.len()
    }
    pub fn ne(&self) -> usize {
        self.edges.len()
    }
    pub fn out_edges(&self, v: usize) -> Vec<usize> {
        (0..self.edges.len()).filter(|i| self.edges[*i].src == v).collect()
    }
    pub fn in_edges(&self, v: usize) -> Vec<usize> {
        (0..self.edges.len()).filter(|i| self.edges[*i].dst == v).collect()
    }
    pub fn out_adj(&self) -> Vec<Vec<usize>> {
        let mut a = vec![vec![]; self.nv()];
        for (i, e) in self.edges.iter().enumerate() {
            a[e.src].push(i);
        }
        a
    }
    pub fn in_adj(&self) -> Vec<Vec<usize>> {
        let mut a = vec![vec![]; self.nv()];
        for (i, e) in self.edges.iter().enumerate() {
            a[e.dst].push(i);
        }
        a
    }
    pub fn max_out_degree(&self) -> usize {
        self.out_adj().iter().map(|a| a.len()).max().unwrap_or(0)
    }
    pub fn max_in_degree(&self) -> usize {
        self.in_adj().iter().map(|a| a.len()).max().unwrap_or(0)
    }

    /// build the repo's Graph the same way its loader does (insert into adj[src] / rev[dst])
    pub fn to_graph(&self) -> Graph {
        let vertices: Vec<Vertex> = self
            .coords
            .iter()
            .enumerate()
            .map(|(i, (x, y))| Vertex::new(i, *x, *y))
            .collect();
        let edges: Vec<Edge> = self
            .edges
            .iter()
            .enumerate()
            .map(|(i, e)| Edge::new(i, e.src, e.dst, e.len_m))
            .collect();
        let mut adj: Vec<CompactOrderedHashMap<EdgeId, VertexId>> =
            vec![CompactOrderedHashMap::empty(); vertices.len()];
        let mut rev: Vec<CompactOrderedHashMap<EdgeId, VertexId>> =
            vec![CompactOrderedHashMap::empty(); vertices.len()];
        for e in &edges {
            adj[e.src_vertex_id.0].insert(e.edge_id, e.dst_vertex_id);
            rev[e.dst_vertex_id.0].insert(e.edge_id, e.src_vertex_id);
        }
        Graph {
            adj: adj.into_boxed_slice(),
            rev: rev.into_boxed_slice(),
            edges: edges.into_boxed_slice(),
            vertices: vertices.into_boxed_slice(),
        }
    }

    pub fn to_json(&self) -> Value {
        json!({
            "vertices": self.coords.iter().map(|(x,y)| json!([x,y])).collect::<Vec<_>>(),
            "edges": self.edges.iter().map(|e| json!([e.src, e.dst, e.len_m])).collect::<Vec<_>>(),
            "motifs": self.motifs,
            "metric": self.metric,
        })
    }

    pub fn from_json(v: &Value) -> Option<RefNet> {
        let coords = v["vertices"]
            .as_array()?
            .iter()
            .map(|c| (c[0].as_f64().unwrap_or(0.0) as f32, c[1].as_f64().unwrap_or(0.0) as f32))
            .collect();
        let edges = v["edges"]
            .as_array()?
            .iter()
            .map(|e| RefEdge {
                src: e[0].as_u64().unwrap_or(0) as usize,
                dst: e[1].as_u64().unwrap_or(0) as usize,
                len_m: e[2].as_f64().unwrap_or(1.0),
            })
            .collect();
        Some(RefNet { coords, edges, motifs: vec![], metric: v["metric"].as_bool().unwrap_or(false) })
    }

    pub fn edges_csv(&self, extra_cols: bool) -> String {
        let mut s = String::new();
        if extra_cols {
            s.push_str("tag,edge_id,src_vertex_id,dst_vertex_id,road_class,distance,grade\n");
        } else {
            s.push_str("edge_id,src_vertex_id,dst_vertex_id,distance\n");
        }
        for (i, e) in self.edges.iter().enumerate() {
            if extra_cols {
                // a leading free-text column: plain words, words starting with '#', quoted text with a comma
                let tag = match i % 4 {
                    0 => "main".to_string(),
                    1 => format!("#hov{i}"),
                    2 => format!("\"ramp, {i}\""),
                    _ => String::new(),
                };
                s.push_str(&format!("{},{},{},{},{},{:?},{}\n", tag, i, e.src, e.dst, i % 5, e.len_m, 0));
            } else {
                s.push_str(&format!("{},{},{},{:?}\n", i, e.src, e.dst, e.len_m));
            }
        }
        s
    }

    /// vertex csv; `perm` selects one of several column orders with extra columns
    pub fn vertices_csv(&self, perm: usize) -> String {
        let mut s = String::new();
        let header = match perm % 4 {
            0 => "vertex_id,x,y",
            1 => "y,x,vertex_id",
            2 => "name,x,vertex_id,elevation,y",
            _ => "vertex_id,zone,y,x,comment",
        };
        s.push_str(header);
        s.push('\n');
        for (i, (x, y)) in self.coords.iter().enumerate() {
            let line = match perm % 4 {
                0 => format!("{},{:?},{:?}", i, x, y),
                1 => format!("{:?},{:?},{}", y, x, i),
                2 => {
                    let name = match i % 4 {
                        0 => format!("v{i}"),
                        1 => format!("#{i} gate"),
                        2 => format!("\"stop, {i}\""),
                        _ => format!("-{i}"),
                    };
                    format!("{},{:?},{},{},{:?}", name, x, i, 1000 + i, y)
                }
                _ => format!("{},z{},{:?},{:?},{}", i, i % 3, y, x, if i % 2 == 0 { "#checked" } else { "c" }),
            };
            s.push_str(&line);
            s.push('\n');
        }
        s
    }
}

pub fn write_text(path: &std::path::Path, body: &str, gzip: bool) -> std::io::Result<()> {
    if gzip {
        let f = std::fs::File::create(path)?;
        let mut enc = flate2::write::GzEncoder::new(f, flate2::Compression::default());
        enc.write_all(body.as_bytes())?;
        enc.finish()?;
        Ok(())
    } else {
        std::fs::write(path, body)
    }
}

fn edge_len(rng: &mut Rng, coords: &[(f32, f32)], s: usize, d: usize, metric: bool) -> f64 {
    if metric {
        // the harness's own f64 great circle, not the repository's helper: the lower bound that the search's
        // heuristic must respect is a fact about the coordinates, whatever the code under test computes
        let h = hav_m_f64((coords[s].0 as f64, coords[s].1 as f64), (coords[d].0 as f64, coords[d].1 as f64));
        let m = if rng.chance(0.3) { rng.frange(0.001, 0.05) } else { rng.frange(0.05, 2.0) };
        // +5 m absorbs the f32 noise of the repo's haversine so admissibility is a fact
        (h * (1.0 + m) + 5.0 + rng.frange(0.0, 20.0)).max(5.0)
    } else {
        rng.log_uniform(1.0, 5000.0)
    }
}

pub fn gen_net(rng: &mut Rng, p: &NetParams) -> RefNet {
    let n = rng.urange(p.min_v.max(2), p.max_v.max(p.min_v.max(2)));
    let mut motifs = vec![];
    // coordinates
    let cx = rng.frange(-120.0, -70.0) as f32;
    let cy = rng.frange(25.0, 48.0) as f32;
    // city-sized networks mostly; one in eight spans many degrees (errors of a great-circle computation that grow with
    // the latitude difference only show there)
    let span = if rng.chance(0.125) { rng.frange(2.0, 25.0) as f32 } else { rng.frange(0.05, 0.5) as f32 };
    let grid_layout = rng.chance(0.3);
    let side = (n as f64).sqrt().ceil() as usize;
    let coords: Vec<(f32, f32)> = (0..n)
        .map(|i| {
            if p.colocated {
                (cx, cy)
            } else if grid_layout {
                let (r, c) = (i / side, i % side);
                (
                    cx + span * (c as f32) / (side as f32),
                    cy + span * (r as f32) / (side as f32),
                )
            } else {
                (
                    cx + (rng.f64() as f32) * span,
                    cy + (rng.f64() as f32) * span,
                )
            }
        })
        .collect();
    if p.colocated {
        motifs.push("colocated".into());
    }
    // blocks (weak components, possibly with one-way bridges)
    let nblocks = if n >= 4 && rng.chance(p.p_blocks) { rng.urange(2, 3.min(n / 2)) } else { 1 };
    let block: Vec<usize> = (0..n).map(|i| if nblocks == 1 { 0 } else { i * nblocks / n }).collect();
    if nblocks > 1 {
        motifs.push(format!("blocks{}", nblocks));
    }
    let mut pairs: Vec<(usize, usize)> = vec![];
    let same_block = |a: usize, b: usize| block[a] == block[b];

    // motif: random digraph
    if rng.chance(0.8) {
        let dens = rng.frange(0.5, 3.0) / (n as f64);
        let mut c = 0;
        for a in 0..n {
            for b in 0..n {
                if a != b && same_block(a, b) && rng.chance(dens) {
                    pairs.push((a, b));
                    c += 1;
                }
            }
        }
        if c > 0 {
            motifs.push("random".into());
        }
    }
    // motif: grid neighbours (both directions mostly)
    if grid_layout || rng.chance(0.25) {
        for i in 0..n {
            let (r, c) = (i / side, i % side);
            for (dr, dc) in [(0usize, 1usize), (1, 0)] {
                let (r2, c2) = (r + dr, c + dc);
                let j = r2 * side + c2;
                if c2 < side && j < n && same_block(i, j) {
                    if rng.chance(0.9) {
                        pairs.push((i, j));
                    }
                    if rng.chance(0.8) {
                        pairs.push((j, i));
                    }
                }
            }
        }
        motifs.push("grid".into());
    }
    // motif: ring per block
    if rng.chance(0.4) {
        for b in 0..nblocks {
            let vs: Vec<usize> = (0..n).filter(|v| block[*v] == b).collect();
            if vs.len() >= 2 {
                for i in 0..vs.len() {
                    pairs.push((vs[i], vs[(i + 1) % vs.len()]));
                }
            }
        }
        motifs.push("ring".into());
    }
    // motif: chain (one way)
    if rng.chance(0.3) {
        let mut vs: Vec<usize> = (0..n).filter(|v| block[*v] == 0).collect();
        rng.shuffle(&mut vs);
        for w in vs.windows(2) {
            pairs.push((w[0], w[1]));
        }
        motifs.push("chain".into());
    }
    // motif: hub with high in/out degree (crosses the compact-map representation switch)
    if n >= 7 && rng.chance(0.35) {
        let h = rng.below(n);
        let kout = rng.urange(5, 12.min(n - 1));
        let kin = rng.urange(5, 12.min(n - 1));
        let mut others: Vec<usize> = (0..n).filter(|v| *v != h && same_block(*v, h)).collect();
        rng.shuffle(&mut others);
        for v in others.iter().take(kout) {
            pairs.push((h, *v));
        }
        rng.shuffle(&mut others);
        for v in others.iter().take(kin) {
            pairs.push((*v, h));
        }
        motifs.push("hub".into());
    }
    // motif: u-turn pairs
    if rng.chance(0.4) && !pairs.is_empty() {
        let k = rng.urange(1, 4);
        for _ in 0..k {
            let (a, b) = pairs[rng.below(pairs.len())];
            pairs.push((b, a));
        }
        motifs.push("uturn".into());
    }
    // one-way bridges between blocks (lower -> higher block only)
    if nblocks > 1 && rng.chance(0.6) {
        let k = rng.urange(1, 3);
        for _ in 0..k {
            let a = rng.below(n);
            let b = rng.below(n);
            if block[a] < block[b] {
                pairs.push((a, b));
            } else if block[b] < block[a] {
                pairs.push((b, a));
            }
        }
        motifs.push("bridge".into());
    }
    // dedupe exact pairs first (parallel edges are added deliberately below)
    pairs.sort();
    pairs.dedup();
    if pairs.is_empty() {
        // at least one edge
        pairs.push((0, 1 % n));
    }
    // motif: parallel edges
    if p.allow_parallel && rng.chance(0.4) {
        let k = rng.urange(1, 4);
        for _ in 0..k {
            let pr = pairs[rng.below(pairs.len())];
            pairs.push(pr);
        }
        motifs.push("parallel".into());
    }
    // motif: self loops
    if p.allow_self_loops && rng.chance(0.25) {
        let k = rng.urange(1, 3);
        for _ in 0..k {
            let v = rng.below(n);
            pairs.push((v, v));
        }
        motifs.push("selfloop".into());
    }
    rng.shuffle(&mut pairs);
    let edges: Vec<RefEdge> = pairs
        .iter()
        .map(|(s, d)| RefEdge { src: *s, dst: *d, len_m: edge_len(rng, &coords, *s, *d, p.metric) })
        .collect();
    RefNet { coords, edges, motifs, metric: p.metric }
}

/// the repo's Graph for this network: built in memory the way the loader does it, or (via_files) written
/// to CSV files and loaded by the real `Graph::from_files`, so that the search monitors also run on
/// graphs produced by the loader
pub fn graph_for(net: &RefNet, via_files: bool) -> Result<std::sync::Arc<Graph>, String> {
    if !via_files {
        return Ok(std::sync::Arc::new(net.to_graph()));
    }
    use std::sync::atomic::{AtomicU64, Ordering};
    static N: AtomicU64 = AtomicU64::new(0);
    let dir = std::path::PathBuf::from(crate::root()).join(".work").join(format!("g-{}-{}", std::process::id(), N.fetch_add(1, Ordering::Relaxed)));
    std::fs::create_dir_all(&dir).map_err(|e| e.to_string())?;
    let ep = dir.join("edges.csv");
    let vp = dir.join("vertices.csv");
    let r = (|| {
        write_text(&ep, &net.edges_csv(false), false).map_err(|e| e.to_string())?;
        write_text(&vp, &net.vertices_csv(0), false).map_err(|e| e.to_string())?;
        // counts declared (both, or the edge count only) or scanned from the files, decided by the network's shape
        let (n_e, n_v) = match (net.nv() * 31 + net.ne()) % 3 {
            0 => (None, None),
            1 => (Some(net.ne()), Some(net.nv())),
            _ => (Some(net.ne()), None),
        };
        Graph::from_files(&ep, &vp, n_e, n_v, Some(false)).map_err(|e| e.to_string())
    })();
    let _ = std::fs::remove_dir_all(&dir);
    r.map(std::sync::Arc::new)
}

//! the configurations and the road network that the repository ships (python/nrel/routee/compass/resources/
//! downtown_denver_example: 482 vertices, 1342 edges of downtown Denver with posted speeds, headings, grades,
//! geometries and identifiers, and the three `osm_default_*.toml` files a user starts from), driven as they are.
//! the reference is this module's own reading of the gzip files; nothing here is generated.
use crate::gen::net::{hav_m_f64, RefEdge, RefNet};
use crate::hooks::{catch, panic_sig};
use crate::mon::Tier;
use crate::oracle::graph::{dijkstra, reachable};
use crate::oracle::units as U;
use crate::oracle::units::rel_close;
use crate::report::Report;
use crate::rng::{hash_str, Rng};
use routee_compass_core::model::unit::as_f64::AsF64;
use routee_compass::app::compass::compass_app::CompassApp;
use routee_compass_core::model::unit::{DistanceUnit, TimeUnit};
use serde_json::{json, Value};
use std::io::Read;
use std::path::{Path, PathBuf};
use std::sync::OnceLock;

pub const DIR: &str = "/repo/python/nrel/routee/compass/resources/downtown_denver_example";

pub struct Denver {
    pub net: RefNet,
    /// vertex coordinates as written in the file (f64)
    pub xy: Vec<(f64, f64)>,
    pub speeds_kph: Vec<f64>,
    pub grades: Vec<f64>,
    pub headings: Vec<(i32, Option<i32>)>,
    pub geoms: Vec<Vec<(f64, f64)>>,
    pub vertex_uuids: Vec<String>,
}

fn gz_text(p: &Path) -> Result<String, String> {
    let f = std::fs::File::open(p).map_err(|e| format!("{}: {e}", p.display()))?;
    let mut s = String::new();
    flate2::read::MultiGzDecoder::new(f).read_to_string(&mut s).map_err(|e| format!("{}: {e}", p.display()))?;
    Ok(s)
}

fn col(header: &str, name: &str) -> Result<usize, String> {
    header.split(',').position(|c| c.trim() == name).ok_or(format!("no column {name} in {header}"))
}

fn load() -> Result<Denver, String> {
    let d = PathBuf::from(DIR);
    // vertices
    let vt = gz_text(&d.join("vertices-compass.csv.gz"))?;
    let mut lines = vt.lines();
    let h = lines.next().ok_or("empty vertex file")?;
    let (ci, cx, cy) = (col(h, "vertex_id")?, col(h, "x")?, col(h, "y")?);
    let mut rows: Vec<(usize, f64, f64)> = vec![];
    for l in lines.filter(|l| !l.trim().is_empty()) {
        let c: Vec<&str> = l.split(',').collect();
        rows.push((c[ci].trim().parse().map_err(|e| format!("{l}: {e}"))?, c[cx].trim().parse().map_err(|e| format!("{l}: {e}"))?, c[cy].trim().parse().map_err(|e| format!("{l}: {e}"))?));
    }
    let nv = rows.len();
    let mut xy = vec![(f64::NAN, f64::NAN); nv];
    for (i, x, y) in rows {
        *xy.get_mut(i).ok_or(format!("vertex id {i} beyond the {nv} rows"))? = (x, y);
    }
    // edges
    let et = gz_text(&d.join("edges-compass.csv.gz"))?;
    let mut lines = et.lines();
    let h = lines.next().ok_or("empty edge file")?;
    let (ce, cs, cd, cl) = (col(h, "edge_id")?, col(h, "src_vertex_id")?, col(h, "dst_vertex_id")?, col(h, "distance")?);
    let mut edges = vec![];
    for (row, l) in lines.filter(|l| !l.trim().is_empty()).enumerate() {
        let c: Vec<&str> = l.split(',').collect();
        let id: usize = c[ce].trim().parse().map_err(|e| format!("{l}: {e}"))?;
        if id != row {
            return Err(format!("edge id {id} in row {row}"));
        }
        edges.push(RefEdge { src: c[cs].trim().parse().map_err(|e| format!("{l}: {e}"))?, dst: c[cd].trim().parse().map_err(|e| format!("{l}: {e}"))?, len_m: c[cl].trim().parse().map_err(|e| format!("{l}: {e}"))? });
    }
    let ne = edges.len();
    let one_col = |name: &str| -> Result<Vec<String>, String> { Ok(gz_text(&d.join(name))?.lines().map(|l| l.trim().to_string()).filter(|l| !l.is_empty()).collect()) };
    let speeds_kph: Vec<f64> = one_col("edges-posted-speed-enumerated.txt.gz")?.iter().map(|s| s.parse().map_err(|e| format!("speed {s}: {e}"))).collect::<Result<_, _>>()?;
    let grades: Vec<f64> = one_col("edges-grade-enumerated.txt.gz")?.iter().map(|s| s.parse().map_err(|e| format!("grade {s}: {e}"))).collect::<Result<_, _>>()?;
    let ht = gz_text(&d.join("edges-headings-enumerated.csv.gz"))?;
    let mut headings = vec![];
    for l in ht.lines().skip(1).filter(|l| !l.trim().is_empty()) {
        let c: Vec<&str> = l.split(',').collect();
        let a: i32 = c[0].trim().parse().map_err(|e| format!("heading {l}: {e}"))?;
        let dep = c.get(1).map(|s| s.trim()).filter(|s| !s.is_empty()).map(|s| s.parse::<i32>()).transpose().map_err(|e| format!("heading {l}: {e}"))?;
        headings.push((a, dep));
    }
    let mut geoms = vec![];
    for l in one_col("edges-geometries-enumerated.txt.gz")? {
        let inner = l.trim_start_matches("LINESTRING").trim().trim_start_matches('(').trim_end_matches(')');
        let pts: Vec<(f64, f64)> = inner
            .split(',')
            .map(|p| {
                let mut it = p.split_whitespace();
                Ok((it.next().ok_or("point")?.parse::<f64>().map_err(|e| e.to_string())?, it.next().ok_or("point")?.parse::<f64>().map_err(|e| e.to_string())?))
            })
            .collect::<Result<_, String>>()?;
        geoms.push(pts);
    }
    let vertex_uuids = one_col("vertices-uuid-enumerated.txt.gz")?;
    if speeds_kph.len() != ne || grades.len() != ne || headings.len() != ne || geoms.len() != ne || vertex_uuids.len() != nv {
        return Err(format!("table lengths: {} speeds, {} headings, {} geometries for {ne} edges; {} identifiers for {nv} vertices", speeds_kph.len(), headings.len(), geoms.len(), vertex_uuids.len()));
    }
    let net = RefNet { coords: xy.iter().map(|p| (p.0 as f32, p.1 as f32)).collect(), edges, motifs: vec!["downtown_denver_example".into()], metric: true };
    Ok(Denver { net, xy, speeds_kph, grades, headings, geoms, vertex_uuids })
}

pub fn denver() -> Result<&'static Denver, String> {
    static D: OnceLock<Result<Denver, String>> = OnceLock::new();
    D.get_or_init(load).as_ref().map_err(|e| e.clone())
}

/// the shipped turn-delay table (seconds), by this module's own angle classes
fn delay_s(angle: i32) -> f64 {
    let mut a = angle;
    while a > 180 {
        a -= 360;
    }
    while a < -180 {
        a += 360;
    }
    let m = a.abs();
    if m >= 160 {
        9.5
    } else if m >= 135 {
        if a > 0 { 1.5 } else { 3.5 }
    } else if m >= 45 {
        if a > 0 { 1.0 } else { 2.5 }
    } else if m >= 20 {
        if a > 0 { 0.5 } else { 1.0 }
    } else {
        0.0
    }
}

impl Denver {
    pub fn turn_delay_s(&self, prev: usize, next: usize) -> f64 {
        let (pa, pd) = self.headings[prev];
        delay_s(self.headings[next].0 - pd.unwrap_or(pa))
    }
    fn nearest(&self, p: (f32, f32)) -> (f32, Vec<usize>) {
        let mut best = f32::INFINITY;
        let mut at = vec![];
        for (i, c) in self.net.coords.iter().enumerate() {
            let (dx, dy) = (c.0 - p.0, c.1 - p.1);
            let d = dx * dx + dy * dy;
            if d < best {
                best = d;
                at = vec![i];
            } else if d == best {
                at.push(i);
            }
        }
        (best, at)
    }
}

/// one `[[traversal.vehicles]]` entry of the shipped energy configuration, as far as this module reads it
#[derive(Clone, Debug)]
pub struct Vehicle {
    pub name: String,
    pub kind: String,
    pub model_file: Option<String>,
    pub rate_unit: Option<String>,
    pub adjustment: f64,
    pub capacity_kwh: Option<f64>,
}

fn toml_str(chunk: &str, key: &str) -> Option<String> {
    chunk.lines().find_map(|l| {
        let l = l.trim();
        let rest = l.strip_prefix(key)?.trim_start();
        let rest = rest.strip_prefix('=')?.trim();
        Some(rest.trim_matches('"').to_string())
    })
}

pub fn vehicles() -> Result<Vec<Vehicle>, String> {
    let text = std::fs::read_to_string(PathBuf::from(DIR).join("osm_default_energy.toml")).map_err(|e| e.to_string())?;
    let body = text.split("[cost.weights]").next().unwrap_or("");
    let mut out = vec![];
    for chunk in body.split("[[traversal.vehicles]]").skip(1) {
        // the entry's own keys come before its first sub-table
        let head = chunk.split("\n[").next().unwrap_or("");
        let name = toml_str(head, "name").ok_or("vehicle without a name")?;
        let kind = toml_str(head, "type").ok_or("vehicle without a type")?;
        let cap = toml_str(head, "battery_capacity").and_then(|v| v.parse::<f64>().ok());
        if cap.is_some() && toml_str(head, "battery_capacity_unit").as_deref() != Some("kilowatt_hours") {
            return Err(format!("vehicle {name}: battery capacity in an unexpected unit"));
        }
        out.push(Vehicle { name, kind, model_file: toml_str(head, "model_input_file"), rate_unit: toml_str(head, "energy_rate_unit"), adjustment: toml_str(head, "real_world_energy_adjustment").and_then(|v| v.parse().ok()).unwrap_or(1.0), capacity_kwh: cap });
    }
    if out.is_empty() {
        return Err("no vehicles found in the shipped energy configuration".into());
    }
    Ok(out)
}

/// the monitor's own copy of a shipped vehicle's prediction model (same file, same interpolation grid)
fn oracle_model(v: &Vehicle) -> Result<routee_compass_powertrain::routee::prediction::PredictionModelRecord, String> {
    use routee_compass_core::model::unit::{EnergyRateUnit, Grade, GradeUnit, Speed, SpeedUnit};
    use routee_compass_powertrain::routee::prediction::{load_prediction_model, model_type::ModelType};
    let file = v.model_file.as_ref().ok_or("no model file")?;
    let eru: EnergyRateUnit = serde_json::from_value(json!(v.rate_unit.clone().ok_or("no rate unit")?)).map_err(|e| e.to_string())?;
    let mt = ModelType::Interpolate { underlying_model_type: Box::new(ModelType::Smartcore), speed_lower_bound: Speed::new(0.0), speed_upper_bound: Speed::new(100.0), speed_bins: 101, grade_lower_bound: Grade::new(-0.2), grade_upper_bound: Grade::new(0.2), grade_bins: 41 };
    load_prediction_model("oracle".into(), &PathBuf::from(DIR).join(file), mt, SpeedUnit::MilesPerHour, GradeUnit::Decimal, eru, None, None, None).map_err(|e| e.to_string())
}

#[derive(Clone, Copy, PartialEq, Debug)]
pub enum Cfg {
    /// osm_default_distance.toml exactly as shipped. it declares no `distance` state feature (the distance traversal
    /// model leaves that to a [state] section, which the file lacks), so every query is refused while the search is
    /// built ("sum of state variable coefficients must be non-zero"); only what happens before the search (vertex
    /// matching, expansion, one answer per query) can be observed with it
    DistanceAsShipped,
    /// the same text with the missing section appended (`[state]` declaring distance in miles for the traversal model and
    /// time in minutes for the turn delays)
    Distance,
    Speed,
    /// osm_default_energy.toml: twenty bundled vehicles (interpolated random forests), the speed table as the nested
    /// time model, grades, turn delays
    Energy,
}

impl Cfg {
    fn file(&self) -> &'static str {
        match self {
            Cfg::DistanceAsShipped | Cfg::Distance => "osm_default_distance.toml",
            Cfg::Speed => "osm_default_speed.toml",
            Cfg::Energy => "osm_default_energy.toml",
        }
    }
    fn name(&self) -> &'static str {
        match self {
            Cfg::DistanceAsShipped => "distance-as-shipped",
            Cfg::Distance => "distance",
            Cfg::Speed => "speed",
            Cfg::Energy => "energy",
        }
    }
    fn build(&self) -> Result<CompassApp, String> {
        let path = PathBuf::from(DIR).join(self.file());
        match self {
            Cfg::Distance => {
                let mut text = std::fs::read_to_string(&path).map_err(|e| e.to_string())?;
                text.push_str("\n[state]\ndistance = { distance_unit = \"miles\", initial = 0.0 }\ntime = { time_unit = \"minutes\", initial = 0.0 }\n");
                CompassApp::try_from_config_toml_string(text, path.to_string_lossy().to_string(), &routee_compass::app::compass::config::compass_app_builder::CompassAppBuilder::default()).map_err(|e| e.to_string())
            }
            _ => CompassApp::try_from(path.as_path()).map_err(|e| e.to_string()),
        }
    }
}

fn parse_unit<T: serde::de::DeserializeOwned>(v: &Value) -> Option<T> {
    serde_json::from_value(v.clone()).ok()
}

struct Q {
    qid: String,
    query: Value,
    /// expected matched vertices (all candidates at the least distance) and the distance in metres, per end
    o: (Vec<usize>, f64),
    d: (Vec<usize>, f64),
    /// weights of the expansion (speed configuration with a grid section), else None
    expansions: Vec<(String, Option<(f64, f64)>)>,
    /// the field of the expanded queries that tells the expansions apart
    key: &'static str,
}

fn gen_point(rng: &mut Rng, dv: &Denver) -> (f64, f64) {
    let v = rng.below(dv.xy.len());
    let (x, y) = dv.xy[v];
    // metres -> degrees at this latitude, roughly; the verdict uses the real great circle afterwards
    let r_m = match rng.below(10) {
        0 => 0.0,
        1..=6 => rng.frange(0.0, 60.0),
        7 => rng.frange(150.0, 260.0),
        8 => rng.frange(260.0, 5_000.0),
        _ => rng.frange(0.0, 150.0),
    };
    let th = rng.frange(0.0, std::f64::consts::TAU);
    (x + r_m * th.cos() / 85_400.0, y + r_m * th.sin() / 111_200.0)
}

const TOL_M: f64 = 200.0;

/// one batch through one of the shipped configurations; every oracle clause carries the property it belongs to
/// and is evaluated only when `prop` is that property.
type Models = std::collections::HashMap<String, (Vehicle, Option<routee_compass_powertrain::routee::prediction::PredictionModelRecord>)>;

fn batch_case(prop: &str, cfg: Cfg, app: &CompassApp, dv: &Denver, models: &Models, case_no: usize, rng: &mut Rng, rep: &mut Report, tier: Tier) {
    let n = rng.urange(4, if tier.thorough { 60 } else { 30 });
    let mut qs: Vec<Q> = vec![];
    for i in 0..n {
        let o = gen_point(rng, dv);
        let d = gen_point(rng, dv);
        let qid = format!("den{case_no}q{i}");
        let mut query = json!({"qid": qid, "origin_x": o.0, "origin_y": o.1, "destination_x": d.0, "destination_y": d.1});
        let mut expansions = vec![(String::new(), None)];
        if cfg == Cfg::Speed && rng.chance(0.25) {
            // the documented use of grid search: the same trip under several objectives
            let all = [("shortest", 1.0, 0.0), ("fastest", 0.0, 1.0), ("balanced", 1.0, 1.0), ("mostly-time", 0.2, 3.0)];
            let k = rng.urange(1, 4);
            let mut picks = all.to_vec();
            rng.shuffle(&mut picks);
            picks.truncate(k);
            query["grid_search"] = json!({"test_cases": picks.iter().map(|(n, wd, wt)| json!({"name": n, "weights": {"distance": wd, "time": wt}})).collect::<Vec<_>>()});
            expansions = picks.iter().map(|(n, wd, wt)| (n.to_string(), Some((*wd, *wt)))).collect();
        } else if cfg == Cfg::Speed && rng.chance(0.2) {
            let (wd, wt) = *rng.pick(&[(1.0, 0.0), (0.0, 1.0), (2.0, 0.5)]);
            query["weights"] = json!({"distance": wd, "time": wt});
            expansions = vec![(String::new(), Some((wd, wt)))];
        }
        let mut key = "name";
        if cfg == Cfg::Energy {
            key = "model_name";
            let vs = vehicles().unwrap_or_default();
            let names: Vec<String> = vs.iter().map(|v| v.name.clone()).collect();
            if rng.chance(0.3) {
                // the documented comparison of vehicles: a grid over model_name
                let mut picks = names.clone();
                rng.shuffle(&mut picks);
                picks.truncate(rng.urange(2, 4));
                query["grid_search"] = json!({"model_name": picks});
                expansions = picks.iter().map(|n| (n.clone(), None)).collect();
            } else {
                let n = rng.pick(&names).clone();
                query["model_name"] = json!(n);
                expansions = vec![(n, None)];
            }
            if rng.chance(0.4) {
                query["starting_soc_percent"] = json!((rng.frange(5.0, 100.0) * 4.0).round() / 4.0);
            }
        }
        let near = |p: (f64, f64)| {
            let (_, at) = dv.nearest((p.0 as f32, p.1 as f32));
            let m = at.iter().map(|v| hav_m_f64(((p.0 as f32) as f64, (p.1 as f32) as f64), (dv.net.coords[*v].0 as f64, dv.net.coords[*v].1 as f64))).fold(f64::INFINITY, f64::min);
            (at, m)
        };
        qs.push(Q { qid, query, o: near(o), d: near(d), expansions, key });
    }
    let batch: Vec<Value> = qs.iter().map(|q| q.query.clone()).collect();
    let par = *rng.pick(&[None, Some(1u64), Some(2), Some(3), Some(8), Some(16)]);
    let run_cfg = par.map(|p| json!({"parallelism": p}));
    let responses = match catch(|| app.run(batch.clone(), run_cfg.as_ref())) {
        Ok(Ok(v)) => v,
        Ok(Err(e)) => {
            if prop == "C06" || prop == "C12" {
                rep.violate(&format!("{prop}|shipped|{}|run-returns-err", cfg.name()), format!("run() failed on the shipped configuration: {e}"), || json!({"config": cfg.file(), "batch": batch}));
            }
            return;
        }
        Err(pm) => {
            if prop == "C06" || prop == "C12" {
                rep.violate(&format!("{prop}|shipped|{}|{}", cfg.name(), panic_sig(&pm)), pm, || json!({"config": cfg.file(), "batch": batch}));
            }
            return;
        }
    };
    rep.count("shipped_batches", 1);
    // vertex matching runs before grid search: a query it refuses is answered once, unexpanded; in the 1 % band around
    // the tolerance either outcome is accepted
    let expect_n = |q: &Q| -> Option<usize> {
        if q.o.1 > TOL_M * 1.01 || q.d.1 > TOL_M * 1.01 {
            Some(1)
        } else if q.o.1 < TOL_M * 0.99 && q.d.1 < TOL_M * 0.99 {
            Some(q.expansions.len())
        } else {
            None
        }
    };
    let expected: usize = qs.iter().map(|q| expect_n(q).unwrap_or(0)).sum();
    if (prop == "C06" || prop == "C17") && qs.iter().all(|q| expect_n(q).is_some()) && responses.len() != expected {
        rep.violate(&format!("{prop}|shipped|{}|response-count", cfg.name()), format!("{} responses for {} queries expanding to {expected}", responses.len(), qs.len()), || json!({"config": cfg.file(), "batch": batch, "parallelism": par}));
    }
    let dbg = std::env::var("VERIF_SHIPPED_DUMP").is_ok();
    // cost per edge of the objective (weights x rates) from this module's own physics
    let miles = |e: usize| dv.net.edges[e].len_m / 1609.344;
    let minutes = |e: usize| dv.net.edges[e].len_m / (dv.speeds_kph[e] / 3.6) / 60.0;
    let allowed = vec![true; dv.net.ne()];
    for q in &qs {
        let mine: Vec<&Value> = responses.iter().filter(|r| r["request"]["qid"].as_str() == Some(q.qid.as_str())).collect();
        if prop == "C06" || prop == "C17" {
            rep.eval();
            let want_n = match expect_n(q) {
                Some(n) => n,
                None => continue,
            };
            if mine.len() != want_n {
                rep.violate(&format!("{prop}|shipped|{}|responses-per-query", cfg.name()), format!("query {} has {} responses; matched or refused before grid search it should have {want_n}", q.qid, mine.len()), || json!({"config": cfg.file(), "batch": batch, "parallelism": par}));
                continue;
            }
            if prop == "C17" && q.o.1 < TOL_M * 0.99 && q.d.1 < TOL_M * 0.99 && q.query.get("grid_search").is_some() {
                let mut names: Vec<String> = mine.iter().map(|r| r["request"][q.key].as_str().unwrap_or("").to_string()).collect();
                let mut want: Vec<String> = q.expansions.iter().map(|x| x.0.clone()).collect();
                names.sort();
                want.sort();
                if names != want || mine.iter().any(|r| r["request"].get("grid_search").is_some()) {
                    rep.violate(&format!("C17|shipped|{}|expansion-multiset", cfg.name()), format!("query {} expanded to {names:?}, the grid section lists {want:?}", q.qid), || json!({"config": cfg.file(), "query": q.query}));
                    continue;
                }
                for r in &mine {
                    if let Some((wd, wt)) = q.expansions.iter().find(|x| Some(x.0.as_str()) == r["request"][q.key].as_str()).and_then(|x| x.1) {
                        if q.expansions.len() > 1 || q.query.get("grid_search").is_some() {
                            if r["request"]["weights"]["distance"].as_f64() != Some(wd) || r["request"]["weights"]["time"].as_f64() != Some(wt) || r["request"]["origin_x"] != q.query["origin_x"] {
                                rep.violate(&format!("C17|shipped|{}|expansion-fields", cfg.name()), format!("expansion {} of {} carries weights {} (listed {wd}/{wt})", r["request"][q.key], q.qid, r["request"]["weights"]), || json!({"config": cfg.file(), "query": q.query, "response_request": r["request"]}));
                            }
                        }
                    }
                }
                if q.expansions.len() >= 2 {
                    rep.nontrivial(hash_str(&format!("shipped|{}", q.query)));
                }
            }
        }
        for r in mine {
            if dbg {
                eprintln!("{}", serde_json::to_string_pretty(r).unwrap_or_default());
            }
            rep.eval();
            let replay = || json!({"config": cfg.file(), "query": q.query, "response": r, "parallelism": par});
            let err = r.get("error").map(|e| e.to_string());
            // ---- C16: matching and tolerance
            let beyond = q.o.1 > TOL_M * 1.01 || q.d.1 > TOL_M * 1.01;
            let within = q.o.1 < TOL_M * 0.99 && q.d.1 < TOL_M * 0.99;
            let matched_o = r["request"]["origin_vertex"].as_u64().map(|v| v as usize);
            let matched_d = r["request"]["destination_vertex"].as_u64().map(|v| v as usize);
            if prop == "C16" {
                if beyond && (err.is_none() || (q.o.1 > TOL_M * 1.01 && matched_o.is_some()) || (q.d.1 > TOL_M * 1.01 && matched_d.is_some())) {
                    rep.violate("C16|shipped|vertex_rtree|match-beyond-tolerance", format!("N2 a coordinate {:.1} / {:.1} m from the nearest vertex was matched (tolerance 0.2 km): origin_vertex {:?} destination_vertex {:?}", q.o.1, q.d.1, matched_o, matched_d), replay);
                    continue;
                }
                if within {
                    match (matched_o, matched_d) {
                        (Some(o), Some(d)) if q.o.0.contains(&o) && q.d.0.contains(&d) => {
                            rep.count("shipped_matches_confirmed", 1);
                            rep.nontrivial(hash_str(&format!("shipped|{}|{o}|{d}", cfg.name())));
                        }
                        (Some(_), Some(_)) => {
                            rep.violate("C16|shipped|vertex_rtree|not-nearest", format!("N1 matched {matched_o:?} / {matched_d:?}, nearest by exhaustive scan {:?} / {:?}", q.o.0, q.d.0), replay);
                            continue;
                        }
                        _ => {
                            rep.violate("C16|shipped|vertex_rtree|refused-within-tolerance", format!("N2 coordinates {:.1} / {:.1} m from their nearest vertices (tolerance 0.2 km) were not matched: {}", q.o.1, q.d.1, err.clone().unwrap_or_default()), replay);
                            continue;
                        }
                    }
                } else if beyond {
                    rep.count("shipped_refusals_confirmed", 1);
                }
                for k in ["origin_x", "origin_y", "destination_x", "destination_y", "qid"] {
                    if r["request"][k] != q.query[k] {
                        rep.violate("C16|shipped|vertex_rtree|field-changed", format!("N3 field {k} of the query came back as {}", r["request"][k]), replay);
                    }
                }
                continue;
            }
            let (o, d) = match (matched_o, matched_d) {
                (Some(o), Some(d)) if within && q.o.0.contains(&o) && q.d.0.contains(&d) => (o, d),
                _ => continue,
            };
            // ---- C05: an answer exactly when the destination can be reached
            let reach = reachable(&dv.net, &allowed, o, true)[d];
            if prop == "C05" {
                if o == d {
                    continue;
                }
                if err.as_deref().map(|e| e.contains("failure building search algorithm")).unwrap_or(false) {
                    // refused while the search was being built: there was no search whose verdict could be judged
                    rep.count("shipped_queries_refused_before_the_search", 1);
                    continue;
                }
                match (&err, reach) {
                    (Some(e), true) => rep.violate("C05|shipped|P1-error-for-reachable", format!("vertex {d} can be reached from {o} but the answer is {e}"), replay),
                    (None, false) => rep.violate("C05|shipped|P2-ok-for-unreachable", format!("vertex {d} cannot be reached from {o} but a route came back"), replay),
                    (Some(e), false) => {
                        if e.to_lowercase().contains("no path") {
                            rep.count("shipped_unreachable_confirmed", 1);
                        } else {
                            rep.violate("C05|shipped|P2-wrong-error", format!("unreachable pair {o} -> {d} answered with {e}"), replay)
                        }
                    }
                    (None, true) => {
                        rep.count("shipped_reachable_confirmed", 1);
                        rep.nontrivial(hash_str(&format!("shipped|{o}|{d}")));
                    }
                }
                continue;
            }
            if err.is_some() || o == d {
                continue;
            }
            let feats = match r["route"]["path"]["features"].as_array() {
                Some(f) => f,
                None => {
                    if prop == "C20" {
                        rep.violate("C20|shipped|D3-geojson-shape", "route.path is not a feature collection".into(), replay);
                    }
                    continue;
                }
            };
            let ids: Vec<usize> = feats.iter().map(|f| f["properties"]["edge_id"].as_u64().unwrap_or(u64::MAX) as usize).collect();
            // ---- C01: a contiguous walk from the matched origin to the matched destination
            let walk_ok = !ids.is_empty() && ids.iter().all(|e| *e < dv.net.ne()) && dv.net.edges[ids[0]].src == o && dv.net.edges[*ids.last().unwrap()].dst == d && ids.windows(2).all(|w| dv.net.edges[w[0]].dst == dv.net.edges[w[1]].src) && {
                let mut s = ids.clone();
                s.sort();
                s.windows(2).all(|w| w[0] != w[1])
            };
            if prop == "C01" {
                if !walk_ok {
                    rep.violate("C01|shipped|route-not-a-walk", format!("edges {ids:?} are not a contiguous walk without repeated edges from vertex {o} to vertex {d}"), replay);
                } else if ids.len() >= 2 {
                    rep.nontrivial(hash_str(&format!("shipped|{}|{ids:?}", cfg.name())));
                }
                continue;
            }
            if !walk_ok {
                continue;
            }
            let sm = &r["route"]["state_model"];
            let slot = |name: &str| sm[name]["index"].as_u64().map(|v| v as usize);
            let state_of = |f: &Value, i: usize| f["properties"]["result_state"][i].as_f64().unwrap_or(f64::NAN);
            // ---- C03: distance and time are the sums over the edges, in the declared units
            if prop == "C03" {
                let (sd, st) = (slot("distance"), slot("time"));
                let du: Option<DistanceUnit> = parse_unit(&sm["distance"]["distance_unit"]);
                let tu: Option<TimeUnit> = parse_unit(&sm["time"]["time_unit"]);
                let (sd, du) = match (sd, du) {
                    (Some(a), Some(b)) => (a, b),
                    _ => {
                        rep.violate("C03|shipped|state-model-not-reported", format!("route.state_model: {sm}"), replay);
                        continue;
                    }
                };
                if du != DistanceUnit::Miles || (matches!(cfg, Cfg::Speed | Cfg::Energy) && tu != Some(TimeUnit::Minutes)) {
                    rep.violate("C03|shipped|declared-units", format!("the shipped configuration asks for miles and minutes, the response declares {} / {}", sm["distance"], sm["time"]), replay);
                    continue;
                }
                let mut dist = 0.0;
                let mut time = 0.0;
                let mut bad = false;
                let mut turns = 0;
                for (i, e) in ids.iter().enumerate() {
                    dist += U::conv_dist(dv.net.edges[*e].len_m, DistanceUnit::Meters, du);
                    if let (Some(st), Some(tu)) = (st, tu) {
                        let mut dt = if matches!(cfg, Cfg::Speed | Cfg::Energy) { minutes(*e) * 60.0 } else { 0.0 };
                        if i > 0 {
                            let dl = dv.turn_delay_s(ids[i - 1], *e);
                            if dl > 0.0 {
                                turns += 1;
                            }
                            dt += dl;
                        }
                        time += U::conv_time(dt, TimeUnit::Seconds, tu);
                        let got = state_of(&feats[i], st);
                        if !rel_close(got, time, 1e-3, 1e-9) {
                            rep.violate(&format!("C03|shipped|{}|S2-time-sum", cfg.name()), format!("edge #{i} ({e}) of {ids:?}: reported time {got} {tu}, true sum {time}"), replay);
                            bad = true;
                            break;
                        }
                    }
                    let got = state_of(&feats[i], sd);
                    if !rel_close(got, dist, 1e-3, 1e-9) {
                        rep.violate(&format!("C03|shipped|{}|S1-distance-sum", cfg.name()), format!("edge #{i} ({e}) of {ids:?}: reported distance {got} {du}, true sum {dist}"), replay);
                        bad = true;
                        break;
                    }
                }
                if bad {
                    continue;
                }
                let sum_d = r["route"]["traversal_summary"]["distance"].as_f64().unwrap_or(f64::NAN);
                if !rel_close(sum_d, dist, 1e-3, 1e-9) || (st.is_some() && !rel_close(r["route"]["traversal_summary"]["time"].as_f64().unwrap_or(f64::NAN), time, 1e-3, 1e-9)) {
                    rep.violate(&format!("C03|shipped|{}|S4-summary", cfg.name()), format!("traversal_summary {} but the route sums to {dist} {du} / {time}", r["route"]["traversal_summary"]), replay);
                    continue;
                }
                rep.count("shipped_routes_summed", 1);
                if ids.len() >= 3 && turns >= 1 {
                    rep.nontrivial(hash_str(&format!("shipped|{}|{ids:?}", cfg.name())));
                }
                continue;
            }
            // ---- C02: the reported costs are the costs of the returned edges under the query's objective (where edge costs do
            // not depend on the turn taken)
            if prop == "C02" {
                let (wd, wt) = match cfg {
                    Cfg::Distance | Cfg::DistanceAsShipped => (1.0, 0.0),
                    Cfg::Energy => (1.0, 1.0),
                    Cfg::Speed => q.expansions.iter().find(|x| Some(x.0.as_str()) == r["request"]["name"].as_str() || x.0.is_empty()).and_then(|x| x.1).unwrap_or((1.0, 1.0)),
                };
                if wt != 0.0 {
                    // time carries the delay of the turn: the cost of an edge depends on its predecessor, outside C02's premise
                    rep.count("shipped_objectives_with_turn_dependent_cost_(skipped)", 1);
                    continue;
                }
                let cost: Vec<f64> = (0..dv.net.ne()).map(|e| (wd * 0.655 * miles(e)).max(1e-10)).collect();
                let best = dijkstra(&dv.net, &cost, &allowed, o, true)[d];
                let mine: f64 = ids.iter().map(|e| cost[*e]).sum();
                let reported: f64 = feats.iter().map(|f| f["properties"]["access_cost"].as_f64().unwrap_or(f64::NAN) + f["properties"]["traversal_cost"].as_f64().unwrap_or(f64::NAN)).sum();
                // the shipped configurations search with A* and 354 of the 1342 shipped edges are shorter than the great circle
                // between their end points (and coordinates are kept in f32): outside the premise under which C02 promises a
                // least-cost route from A*. the excess over the reference is recorded, not judged; what is judged is that the
                // costs reported for the returned edges are the costs of those edges under the query's objective
                if mine > best * (1.0 + 1e-9) {
                    rep.count("shipped_routes_above_the_reference_least_cost_(A*_on_a_non-metric_network,_not_judged)", 1);
                    rep.max("max_shipped_excess_over_least_cost_ppm", ((mine / best - 1.0) * 1e6) as u64);
                }
                if !rel_close(reported, mine, 1e-3, 1e-9) {
                    rep.violate(&format!("C02|shipped|{}|O2-reported-cost", cfg.name()), format!("edge costs of the response add up to {reported}; the route costs {mine} under weights distance {wd} time {wt}"), replay);
                } else {
                    rep.count("shipped_reported_costs_confirmed", 1);
                    if ids.len() >= 3 {
                        rep.nontrivial(hash_str(&format!("shipped|{}|{o}|{d}", cfg.name())));
                    }
                }
                continue;
            }
            // ---- C08: energy and charge along the route follow the shipped vehicle's own model
            if prop == "C08" {
                use routee_compass_core::model::unit::{Grade, GradeUnit, Speed, SpeedUnit};
                let name = r["request"]["model_name"].as_str().unwrap_or("");
                let (veh, rec) = match models.get(name) {
                    Some((v, Some(rec))) => (v, rec),
                    _ => {
                        rep.count("shipped_routes_of_vehicles_without_a_single_model_(phev)_skipped", 1);
                        continue;
                    }
                };
                let feature = if veh.kind == "bev" { "energy_electric" } else { "energy_liquid" };
                // the energy unit of the vehicle's own rate unit (gallons_gasoline_per_mile -> gallons_gasoline)
                let want_unit = veh.rate_unit.as_deref().and_then(|u| u.split("_per_").next()).unwrap_or("");
                let se = match slot(feature) {
                    Some(i) if sm[feature]["energy_unit"].as_str() == Some(want_unit) => i,
                    _ => {
                        rep.violate(&format!("C08|shipped|{}|energy-feature-declaration", veh.kind), format!("vehicle {name}: the response's state model declares {}", sm[feature]), replay);
                        continue;
                    }
                };
                let sb = slot("battery_state");
                let soc0 = q.query["starting_soc_percent"].as_f64().unwrap_or(100.0);
                let mut prev_e = 0.0;
                let mut prev_soc = soc0;
                let mut bad = false;
                let mut clamps = 0;
                for (i, e) in ids.iter().enumerate() {
                    let mph = dv.speeds_kph[*e] / 1.609344;
                    let mut lo = f64::INFINITY;
                    let mut hi = f64::NEG_INFINITY;
                    for f in [0.999, 0.9995, 1.0, 1.0005, 1.001] {
                        if let Ok((x, _)) = rec.prediction_model.predict((Speed::new(mph * f), SpeedUnit::MilesPerHour), (Grade::new(dv.grades[*e]), GradeUnit::Decimal)) {
                            lo = lo.min(x.as_f64());
                            hi = hi.max(x.as_f64());
                        }
                    }
                    let (a, b) = (lo * veh.adjustment * miles(*e), hi * veh.adjustment * miles(*e));
                    let (lo_e, hi_e) = (a.min(b), a.max(b));
                    let m = lo_e.abs().max(hi_e.abs());
                    let now_e = state_of(&feats[i], se);
                    let de = now_e - prev_e;
                    if !(de >= lo_e - 2e-3 * m - 1e-12 && de <= hi_e + 2e-3 * m + 1e-12) {
                        rep.violate(&format!("C08|shipped|{}|edge-energy-off", veh.kind), format!("E1 vehicle {name}, edge #{i} ({e}: {:.1} m at {} km/h, grade {}): energy changed by {de} {want_unit}; the vehicle's model x adjustment x length gives [{lo_e}, {hi_e}]", dv.net.edges[*e].len_m, dv.speeds_kph[*e], dv.grades[*e]), replay);
                        bad = true;
                        break;
                    }
                    if let (Some(sb), Some(cap)) = (sb, veh.capacity_kwh) {
                        let raw = prev_soc - 100.0 * de / cap;
                        let want = raw.clamp(0.0, 100.0);
                        if raw != want {
                            clamps += 1;
                        }
                        let got = state_of(&feats[i], sb);
                        if !rel_close(got, want, 1e-9, 1e-9) {
                            rep.violate("C08|shipped|bev|battery-state", format!("E3 vehicle {name} ({cap} kWh), edge #{i} ({e}): battery state {got} % after {prev_soc} % and {de} kWh, expected {want} %"), replay);
                            bad = true;
                            break;
                        }
                        prev_soc = got;
                    }
                    prev_e = now_e;
                }
                if bad {
                    continue;
                }
                let ts = &r["route"]["traversal_summary"];
                if !rel_close(ts[feature].as_f64().unwrap_or(f64::NAN), prev_e, 1e-12, 1e-12) {
                    rep.violate(&format!("C08|shipped|{}|summary", veh.kind), format!("traversal_summary {} but the last edge leaves {feature} at {prev_e}", ts), replay);
                    continue;
                }
                rep.count(&format!("shipped_{}_routes_confirmed", veh.kind), 1);
                rep.seen("shipped_vehicles", name.to_string());
                if ids.len() >= 3 {
                    rep.nontrivial(hash_str(&format!("shipped|{name}|{ids:?}|{soc0}|{clamps}")));
                }
                continue;
            }
            // ---- C20: the rendered route is the route
            if prop == "C20" {
                let mut bad = None;
                for (i, f) in feats.iter().enumerate() {
                    if f["id"].as_u64() != Some(ids[i] as u64) {
                        bad = Some(("D3-geojson-feature-id", format!("feature {i} has id {} and edge_id {}", f["id"], ids[i])));
                        break;
                    }
                    let g: Vec<(f64, f64)> = f["geometry"]["coordinates"].as_array().map(|a| a.iter().map(|p| (p[0].as_f64().unwrap_or(f64::NAN), p[1].as_f64().unwrap_or(f64::NAN))).collect()).unwrap_or_default();
                    let want = &dv.geoms[ids[i]];
                    if g.len() != want.len() || g.iter().zip(want).any(|(a, b)| (a.0 as f32) != (b.0 as f32) || (a.1 as f32) != (b.1 as f32)) {
                        bad = Some(("D3-geojson-geometry", format!("feature {i}: geometry of {} points is not the stored geometry of edge {} ({} points)", g.len(), ids[i], want.len())));
                        break;
                    }
                }
                if let Some((c, m)) = bad {
                    rep.violate(&format!("C20|shipped|{c}"), m, replay);
                    continue;
                }
                if r["origin_vertex_uuid"].as_str() != Some(dv.vertex_uuids[o].as_str()) || r["destination_vertex_uuid"].as_str() != Some(dv.vertex_uuids[d].as_str()) {
                    rep.violate("C20|shipped|wrong-identifier", format!("D7 identifiers {} / {} for vertices {o} / {d} (stored {} / {})", r["origin_vertex_uuid"], r["destination_vertex_uuid"], dv.vertex_uuids[o], dv.vertex_uuids[d]), replay);
                    continue;
                }
                if r["route_edges"].as_u64() != Some(ids.len() as u64) {
                    rep.violate("C20|shipped|counts", format!("D7 route_edges {} for a route of {} edges", r["route_edges"], ids.len()), replay);
                    continue;
                }
                rep.count("shipped_routes_rendered", 1);
                if ids.len() >= 2 {
                    rep.nontrivial(hash_str(&format!("shipped|{}|{ids:?}", cfg.name())));
                }
                continue;
            }
        }
    }
    // ---- C06: the batch answers are the answers each query gets alone
    if prop == "C06" {
        let proj = |r: &Value| -> String {
            let ids: Vec<u64> = r["route"]["path"]["features"].as_array().map(|a| a.iter().filter_map(|f| f["properties"]["edge_id"].as_u64()).collect()).unwrap_or_default();
            let ts = &r["route"]["traversal_summary"];
            format!("{}|{}{}|{}|{ids:?}|{:.9e}|{:.9e}|{}", r["request"]["qid"], r["request"]["name"], r["request"]["model_name"], r.get("error").map(|e| e.to_string()).unwrap_or_default(), ts["distance"].as_f64().unwrap_or(-1.0), ts["time"].as_f64().unwrap_or(-1.0), ["energy_liquid", "energy_electric", "battery_state"].iter().map(|k| format!("{:.9e}", ts[*k].as_f64().unwrap_or(-1.0))).collect::<Vec<_>>().join("/"))
        };
        let mut got: Vec<String> = responses.iter().map(proj).collect();
        got.sort();
        let mut want = vec![];
        let sample: Vec<&Q> = qs.iter().collect();
        for q in sample {
            match catch(|| app.run(vec![q.query.clone()], Some(&json!({"parallelism": 1})))) {
                Ok(Ok(v)) => want.extend(v.iter().map(proj)),
                Ok(Err(e)) => want.push(format!("{}|run-error {e}", q.qid)),
                Err(pm) => want.push(format!("{}|panic {pm}", q.qid)),
            }
        }
        want.sort();
        if got != want {
            let diff: Vec<&String> = got.iter().filter(|g| !want.contains(g)).chain(want.iter().filter(|w| !got.contains(w))).take(4).collect();
            rep.violate(&format!("C06|shipped|{}|batch-differs-from-alone", cfg.name()), format!("B3 with parallelism {par:?} the batch's answers differ from the answers the queries get alone, e.g. {diff:?}"), || json!({"config": cfg.file(), "batch": batch, "parallelism": par}));
        } else {
            rep.count("shipped_batches_equal_to_alone", 1);
            if qs.len() >= 6 {
                rep.nontrivial(hash_str(&format!("shipped|{case_no}|{}", cfg.name())));
            }
        }
    }
}

/// C15: the loaded network is the one in the shipped files
fn graph_case(rep: &mut Report, dv: &Denver) {
    use routee_compass_core::model::network::{edge_id::EdgeId, graph::Graph, vertex_id::VertexId};
    let d = PathBuf::from(DIR);
    let g = match catch(|| Graph::from_files(&d.join("edges-compass.csv.gz"), &d.join("vertices-compass.csv.gz"), None, None, Some(false))) {
        Ok(Ok(g)) => g,
        Ok(Err(e)) => {
            rep.violate("C15|shipped|Graph::from_files|load-error", format!("the shipped network was refused: {e}"), || json!({}));
            return;
        }
        Err(pm) => {
            rep.violate(&format!("C15|shipped|Graph::from_files|{}", panic_sig(&pm)), pm, || json!({}));
            return;
        }
    };
    rep.eval();
    if g.n_edges() != dv.net.ne() || g.n_vertices() != dv.net.nv() {
        rep.violate("C15|shipped|G1-counts", format!("{} edges / {} vertices loaded, the files hold {} / {}", g.n_edges(), g.n_vertices(), dv.net.ne(), dv.net.nv()), || json!({}));
        return;
    }
    for (i, e) in dv.net.edges.iter().enumerate() {
        rep.eval();
        match g.get_edge(&EdgeId(i)) {
            Ok(x) if x.src_vertex_id.0 == e.src && x.dst_vertex_id.0 == e.dst && rel_close(x.distance.as_f64(), e.len_m, 1e-12, 0.0) => {}
            other => {
                rep.violate("C15|shipped|G2-edge-row", format!("edge {i} loaded as {other:?}, the file says {} -> {} length {}", e.src, e.dst, e.len_m), || json!({}));
                return;
            }
        }
    }
    let (oa, ia) = (dv.net.out_adj(), dv.net.in_adj());
    for v in 0..dv.net.nv() {
        rep.eval();
        let mut o: Vec<usize> = g.out_edges(&VertexId(v)).iter().map(|e| e.0).collect();
        let mut i: Vec<usize> = g.in_edges(&VertexId(v)).iter().map(|e| e.0).collect();
        o.sort();
        i.sort();
        let (mut wo, mut wi) = (oa[v].clone(), ia[v].clone());
        wo.sort();
        wi.sort();
        if o != wo || i != wi {
            rep.violate("C15|shipped|G3-adjacency", format!("vertex {v}: out {o:?} in {i:?}, the file lists out {wo:?} in {wi:?}"), || json!({}));
            return;
        }
        match g.get_vertex(&VertexId(v)) {
            Ok(x) if x.x() == dv.net.coords[v].0 && x.y() == dv.net.coords[v].1 && x.vertex_id.0 == v => {}
            other => {
                rep.violate("C15|shipped|G5-coordinates", format!("vertex {v} loaded as {other:?}, the file says {:?}", dv.xy[v]), || json!({}));
                return;
            }
        }
    }
    rep.count("shipped_graph_loads_confirmed", 1);
    rep.nontrivial(hash_str("shipped|graph"));
}

pub const PROPS: [&str; 10] = ["C01", "C02", "C03", "C05", "C06", "C08", "C15", "C16", "C17", "C20"];

pub fn rule_text(prop: &str) -> Option<String> {
    if !PROPS.contains(&prop) {
        return None;
    }
    Some(" shipped-configuration slice: the repository's own example (downtown Denver, 482 vertices / 1342 edges, gzip tables) under the shipped osm_default_distance.toml, osm_default_speed.toml and (C03, C06, C08, C17) osm_default_energy.toml with its twenty bundled vehicles, exactly as a user gets them (vertex matching with a 0.2 km tolerance, grid search, load balancer, turn delays, geo_json route output, summary and identifier plugins); batches of coordinate queries placed 0 m - 5 km from real vertices, a quarter of them with the documented grid over objectives, run with the configured or an overridden parallelism; the reference is the monitor's own reading of the gzip files (edge list, speeds, headings, geometries, identifiers), its own turn classes, great circle and shortest-path search.".into())
}

/// run the shipped-configuration slice for one property and return its report (empty for properties without one)
pub fn run(prop: &str, tier: Tier, seed: u64) -> Report {
    let mut rep = Report::new();
    if !PROPS.contains(&prop) {
        return rep;
    }
    let dv = match denver() {
        Ok(d) => d,
        Err(e) => {
            rep.inconclusive(format!("the shipped example cannot be read by the monitor: {e}"));
            return rep;
        }
    };
    if prop == "C15" {
        graph_case(&mut rep, dv);
        return rep;
    }
    let cfgs: &[Cfg] = match prop {
        "C17" => &[Cfg::Speed, Cfg::Energy],
        "C08" => &[Cfg::Energy],
        "C03" => &[Cfg::Distance, Cfg::Speed, Cfg::Energy],
        "C16" => &[Cfg::DistanceAsShipped, Cfg::Distance, Cfg::Speed],
        "C06" => &[Cfg::DistanceAsShipped, Cfg::Distance, Cfg::Speed, Cfg::Energy],
        _ => &[Cfg::Distance, Cfg::Speed],
    };
    let mut models: Models = Default::default();
    if prop == "C08" {
        match vehicles() {
            Ok(vs) => {
                for v in vs {
                    let rec = if v.kind == "ice" || v.kind == "bev" { oracle_model(&v).ok() } else { None };
                    models.insert(v.name.clone(), (v, rec));
                }
            }
            Err(e) => {
                rep.inconclusive(format!("the shipped energy configuration cannot be read by the monitor: {e}"));
                return rep;
            }
        }
    }
    for cfg in cfgs {
        let app = match catch(|| cfg.build()) {
            Ok(Ok(a)) => a,
            Ok(Err(e)) => {
                rep.violate(&format!("{prop}|shipped|{}|CompassApp::try_from|load-error", cfg.name()), format!("the shipped configuration was refused: {e}"), || json!({"config": cfg.file()}));
                continue;
            }
            Err(pm) => {
                rep.violate(&format!("{prop}|shipped|{}|CompassApp::try_from|{}", cfg.name(), panic_sig(&pm)), pm, || json!({"config": cfg.file()}));
                continue;
            }
        };
        let mut n = tier.n(if prop == "C06" { 6 } else { 12 }, if prop == "C06" { 60 } else { 200 });
        if *cfg == Cfg::Energy && prop != "C08" || prop == "C17" {
            n = (n / 3).max(1);
        }
        // VERIF_SHIPPED_N sets the number of batches per configuration directly (with a tiny VERIF_SCALE it runs this slice
        // almost alone, which is how the slice itself was validated against seeded changes)
        if let Some(k) = std::env::var("VERIF_SHIPPED_N").ok().and_then(|s| s.parse::<usize>().ok()) {
            n = k.max(1);
        }
        let base = Rng::new(seed ^ 0x5a17_ed00 ^ hash_str(cfg.name()));
        for i in 0..n {
            let mut rng = base.fork(i as u64 + 1);
            batch_case(prop, *cfg, &app, dv, &models, i, &mut rng, &mut rep, tier);
        }
    }
    rep
}

//! structural checkers for routes and trees against the generator's network (C01 clauses).
use crate::gen::net::RefNet;
use routee_compass_core::algorithm::search::edge_traversal::EdgeTraversal;
use routee_compass_core::algorithm::search::search_tree_branch::SearchTreeBranch;
use routee_compass_core::model::network::VertexId;
use std::collections::{HashMap, HashSet};

#[derive(Clone, Copy, Debug, PartialEq)]
pub enum Od {
    /// search source vertex, optional search target vertex
    Vertex(usize, Option<usize>),
    /// origin edge, optional destination edge
    Edge(usize, Option<usize>),
}

pub fn route_ids(route: &[EdgeTraversal]) -> Vec<usize> {
    route.iter().map(|e| e.edge_id.0).collect()
}

/// a route in *travel order*: reverse-direction results list the edge next to the search source
/// first, which is the last edge travelled.
pub fn travel_order(ids: &[usize], reverse: bool) -> Vec<usize> {
    let mut v = ids.to_vec();
    if reverse {
        v.reverse();
    }
    v
}

/// R1..R5. `ids` is the route as returned; `reverse` is the search direction.
/// returns the list of failed clauses (empty = ok).
pub fn check_route(net: &RefNet, ids: &[usize], od: Od, reverse: bool) -> Vec<String> {
    let mut fails = vec![];
    // R1 ids exist
    for &e in ids {
        if e >= net.ne() {
            fails.push(format!("R1 edge id {e} does not exist"));
            return fails;
        }
    }
    let t = travel_order(ids, reverse);
    // R2 contiguity
    for w in t.windows(2) {
        if net.edges[w[0]].dst != net.edges[w[1]].src {
            fails.push(format!(
                "R2 edge {} ends at {} but next edge {} starts at {}",
                w[0], net.edges[w[0]].dst, w[1], net.edges[w[1]].src
            ));
            break;
        }
    }
    // R4 no edge twice
    let mut seen = HashSet::new();
    for &e in &t {
        if !seen.insert(e) {
            fails.push(format!("R4 edge {e} occurs twice"));
            break;
        }
    }
    match od {
        Od::Vertex(s, Some(d)) => {
            // travel origin / destination
            let (o, dd) = if reverse { (d, s) } else { (s, d) };
            if s != d {
                if t.is_empty() {
                    fails.push("R5 empty route for distinct origin and destination".into());
                } else {
                    if net.edges[t[0]].src != o {
                        fails.push(format!("R3 first edge {} leaves {} not origin {}", t[0], net.edges[t[0]].src, o));
                    }
                    let l = *t.last().unwrap();
                    if net.edges[l].dst != dd {
                        fails.push(format!("R3 last edge {} enters {} not destination {}", l, net.edges[l].dst, dd));
                    }
                }
            }
        }
        Od::Edge(oe, Some(de)) => {
            if oe != de {
                if t.is_empty() {
                    fails.push("R5 empty route for distinct origin and destination edges".into());
                } else {
                    let f = t[0];
                    if !(f == oe || net.edges[f].src == net.edges[oe].src) {
                        fails.push(format!(
                            "R3 first edge {} is not the origin edge {} and does not leave its source vertex",
                            f, oe
                        ));
                    }
                    let l = *t.last().unwrap();
                    if !(l == de || net.edges[l].dst == net.edges[de].dst) {
                        fails.push(format!(
                            "R3 last edge {} is not the destination edge {} and does not enter its end vertex",
                            l, de
                        ));
                    }
                }
            }
        }
        _ => {}
    }
    fails
}

/// T1..T3 for one tree. `root` is the search source vertex of the underlying vertex search;
/// `reverse` the direction in which the tree was grown.
pub fn check_tree(
    net: &RefNet,
    tree: &HashMap<VertexId, SearchTreeBranch>,
    root: usize,
    reverse: bool,
    origin_edge: Option<usize>,
) -> Vec<String> {
    let mut fails = vec![];
    for (v, b) in tree.iter() {
        let e = b.edge_traversal.edge_id.0;
        if e >= net.ne() {
            fails.push(format!("T1 tree entry {} has unknown edge {}", v.0, e));
            continue;
        }
        let (near, far) = if reverse { (net.edges[e].dst, net.edges[e].src) } else { (net.edges[e].src, net.edges[e].dst) };
        // the entry injected for the origin edge of an edge-oriented search is keyed by the root itself
        if far != v.0 || near != b.terminal_vertex.0 {
            fails.push(format!(
                "T1 entry {} <- parent {} via edge {} but that edge joins {} -> {} in search direction",
                v.0, b.terminal_vertex.0, e, near, far
            ));
        }
    }
    // T4: in an edge-oriented tree the entry keyed by the root of the inner search is the origin edge itself (the inner
    // search never labels its own source, so nothing else can legitimately sit there)
    if let Some(oe) = origin_edge {
        if let Some(b) = tree.get(&VertexId(root)) {
            if b.edge_traversal.edge_id.0 != oe {
                fails.push(format!("T4 the entry of vertex {root}, where the origin edge {oe} arrives, carries edge {} instead: the origin edge is not part of the tree", b.edge_traversal.edge_id.0));
            }
        }
    }
    if !fails.is_empty() {
        fails.truncate(3);
        return fails;
    }
    // T2/T3: every entry walks up to the root without revisiting a vertex
    let n = tree.len();
    for (v, _) in tree.iter() {
        let mut cur = v.0;
        let mut steps = 0usize;
        let mut seen = HashSet::new();
        loop {
            if cur == root && !(steps == 0 && origin_edge.is_some() && v.0 == root) {
                break;
            }
            if !seen.insert(cur) {
                fails.push(format!("T3 walk from {} revisits vertex {}", v.0, cur));
                break;
            }
            match tree.get(&VertexId(cur)) {
                None => {
                    // an edge-oriented tree ends at the source vertex of the origin edge
                    if let Some(oe) = origin_edge {
                        if cur == net.edges[oe].src {
                            break;
                        }
                    }
                    fails.push(format!("T2 walk from {} reaches {} which has no entry and is not the root {}", v.0, cur, root));
                    break;
                }
                Some(b) => {
                    cur = b.terminal_vertex.0;
                }
            }
            steps += 1;
            if steps > n + 1 {
                fails.push(format!("T3 walk from {} longer than the tree", v.0));
                break;
            }
        }
        if fails.len() >= 3 {
            break;
        }
    }
    fails
}

/// no vertex visited twice along the route (loop-free in the KSP sense)
pub fn repeats_vertex(net: &RefNet, travel: &[usize]) -> bool {
    if travel.is_empty() {
        return false;
    }
    let mut seen = HashSet::new();
    seen.insert(net.edges[travel[0]].src);
    for &e in travel {
        if !seen.insert(net.edges[e].dst) {
            return true;
        }
    }
    false
}

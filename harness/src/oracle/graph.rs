//! deliberately simple reference graph algorithms over the generator's own edge list.
use crate::gen::net::RefNet;
use std::cmp::Ordering;
use std::collections::BinaryHeap;

#[derive(PartialEq)]
struct Item(f64, usize);
impl Eq for Item {}
impl PartialOrd for Item {
    fn partial_cmp(&self, o: &Self) -> Option<Ordering> {
        Some(self.cmp(o))
    }
}
impl Ord for Item {
    fn cmp(&self, o: &Self) -> Ordering {
        // min-heap on cost
        o.0.partial_cmp(&self.0).unwrap_or(Ordering::Equal).then(o.1.cmp(&self.1))
    }
}

/// single-source shortest path costs along edge direction (`forward = true`: from `src` following
/// edges; `false`: costs of travelling *to* `src`, i.e. Dijkstra on the transposed graph).
/// `cost[e]` must be > 0; edges with `allowed[e] == false` are ignored.
pub fn dijkstra(net: &RefNet, cost: &[f64], allowed: &[bool], src: usize, forward: bool) -> Vec<f64> {
    let n = net.nv();
    let adj = if forward { net.out_adj() } else { net.in_adj() };
    let mut dist = vec![f64::INFINITY; n];
    let mut done = vec![false; n];
    dist[src] = 0.0;
    let mut h = BinaryHeap::new();
    h.push(Item(0.0, src));
    while let Some(Item(d, u)) = h.pop() {
        if done[u] {
            continue;
        }
        done[u] = true;
        for &e in &adj[u] {
            if !allowed[e] {
                continue;
            }
            let v = if forward { net.edges[e].dst } else { net.edges[e].src };
            let nd = d + cost[e];
            if nd < dist[v] {
                dist[v] = nd;
                h.push(Item(nd, v));
            }
        }
    }
    dist
}

/// vertices reachable from `src` (forward) or that can reach `src` (backward); includes `src`.
pub fn reachable(net: &RefNet, allowed: &[bool], src: usize, forward: bool) -> Vec<bool> {
    let n = net.nv();
    let adj = if forward { net.out_adj() } else { net.in_adj() };
    let mut seen = vec![false; n];
    let mut stack = vec![src];
    seen[src] = true;
    while let Some(u) = stack.pop() {
        for &e in &adj[u] {
            if !allowed[e] {
                continue;
            }
            let v = if forward { net.edges[e].dst } else { net.edges[e].src };
            if !seen[v] {
                seen[v] = true;
                stack.push(v);
            }
        }
    }
    seen
}

/// true when some o->d path exists whose cost differs from the optimum (so optimality is not vacuous)
pub fn has_costlier_alternative(net: &RefNet, cost: &[f64], allowed: &[bool], o: usize, d: usize) -> bool {
    let from_o = dijkstra(net, cost, allowed, o, true);
    let to_d = dijkstra(net, cost, allowed, d, false);
    let best = from_o[d];
    if !best.is_finite() {
        return false;
    }
    for (i, e) in net.edges.iter().enumerate() {
        if !allowed[i] {
            continue;
        }
        let via = from_o[e.src] + cost[i] + to_d[e.dst];
        if via.is_finite() && via > best * (1.0 + 1e-9) + 1e-12 {
            return true;
        }
    }
    false
}

/// mutual reachability classes by transitive closure (Floyd–Warshall on booleans)
pub fn scc_reference(n: usize, edges: &[(usize, usize)]) -> Vec<usize> {
    let mut r = vec![vec![false; n]; n];
    for i in 0..n {
        r[i][i] = true;
    }
    for &(a, b) in edges {
        r[a][b] = true;
    }
    for k in 0..n {
        for i in 0..n {
            if r[i][k] {
                for j in 0..n {
                    if r[k][j] {
                        r[i][j] = true;
                    }
                }
            }
        }
    }
    // class id = smallest mutually reachable vertex
    (0..n)
        .map(|i| (0..n).find(|&j| r[i][j] && r[j][i]).unwrap_or(i))
        .collect()
}

/// SCC by an iterative Tarjan (linear time; independent of the repo's two-pass algorithm).
/// class id = smallest vertex of the component.
pub fn scc_reference_bfs(n: usize, edges: &[(usize, usize)]) -> Vec<usize> {
    let mut out = vec![vec![]; n];
    for &(a, b) in edges {
        out[a].push(b);
    }
    let mut index = vec![usize::MAX; n];
    let mut low = vec![0usize; n];
    let mut on = vec![false; n];
    let mut stack: Vec<usize> = vec![];
    let mut class = vec![usize::MAX; n];
    let mut next = 0usize;
    for s in 0..n {
        if index[s] != usize::MAX {
            continue;
        }
        // explicit DFS stack of (vertex, next child position)
        let mut work: Vec<(usize, usize)> = vec![(s, 0)];
        index[s] = next;
        low[s] = next;
        next += 1;
        stack.push(s);
        on[s] = true;
        while let Some(&mut (u, ref mut ci)) = work.last_mut() {
            if *ci < out[u].len() {
                let v = out[u][*ci];
                *ci += 1;
                if index[v] == usize::MAX {
                    index[v] = next;
                    low[v] = next;
                    next += 1;
                    stack.push(v);
                    on[v] = true;
                    work.push((v, 0));
                } else if on[v] {
                    low[u] = low[u].min(index[v]);
                }
            } else {
                work.pop();
                if let Some(&(p, _)) = work.last() {
                    low[p] = low[p].min(low[u]);
                }
                if low[u] == index[u] {
                    let mut members = vec![];
                    loop {
                        let w = stack.pop().unwrap();
                        on[w] = false;
                        members.push(w);
                        if w == u {
                            break;
                        }
                    }
                    let id = *members.iter().min().unwrap();
                    for w in members {
                        class[w] = id;
                    }
                }
            }
        }
    }
    class
}

/// number of simple (loop-free, distinct edge sequence) paths from `o` to `d`, or None when there are more than `cap`
/// or the bounded search gives up after `max_steps` edge visits
pub fn count_simple_paths(net: &RefNet, o: usize, d: usize, cap: usize, max_steps: usize) -> Option<usize> {
    if o >= net.nv() || d >= net.nv() {
        return Some(0);
    }
    let adj: Vec<Vec<usize>> = (0..net.nv()).map(|v| net.out_edges(v)).collect();
    let mut visited = vec![false; net.nv()];
    let mut count = 0usize;
    let mut steps = 0usize;
    // iterative DFS: (vertex, next out-edge position)
    let mut stack: Vec<(usize, usize)> = vec![(o, 0)];
    visited[o] = true;
    while let Some((v, pos)) = stack.pop() {
        if pos >= adj[v].len() {
            visited[v] = false;
            continue;
        }
        stack.push((v, pos + 1));
        steps += 1;
        if steps > max_steps {
            return None;
        }
        let w = net.edges[adj[v][pos]].dst;
        if w == d {
            count += 1;
            if count > cap {
                return None;
            }
            continue;
        }
        if !visited[w] {
            visited[w] = true;
            stack.push((w, 0));
        }
    }
    Some(count)
}

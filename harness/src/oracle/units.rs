//! independent physical unit table (SI definitions), never derived from the repo's constants.
use routee_compass_core::model::unit::{
    DistanceUnit, EnergyRateUnit, EnergyUnit, GradeUnit, SpeedUnit, TimeUnit, WeightUnit,
};

pub const DISTANCE_UNITS: [DistanceUnit; 5] = [
    DistanceUnit::Meters,
    DistanceUnit::Kilometers,
    DistanceUnit::Miles,
    DistanceUnit::Inches,
    DistanceUnit::Feet,
];
pub const TIME_UNITS: [TimeUnit; 4] = [TimeUnit::Hours, TimeUnit::Minutes, TimeUnit::Seconds, TimeUnit::Milliseconds];
pub const SPEED_UNITS: [SpeedUnit; 3] = [SpeedUnit::KilometersPerHour, SpeedUnit::MilesPerHour, SpeedUnit::MetersPerSecond];
pub const ENERGY_UNITS: [EnergyUnit; 3] = [EnergyUnit::GallonsGasoline, EnergyUnit::GallonsDiesel, EnergyUnit::KilowattHours];
pub const GRADE_UNITS: [GradeUnit; 3] = [GradeUnit::Percent, GradeUnit::Decimal, GradeUnit::Millis];
pub const WEIGHT_UNITS: [WeightUnit; 3] = [WeightUnit::Pounds, WeightUnit::Tons, WeightUnit::Kg];
pub const ENERGY_RATE_UNITS: [EnergyRateUnit; 5] = [
    EnergyRateUnit::GallonsGasolinePerMile,
    EnergyRateUnit::GallonsDieselPerMile,
    EnergyRateUnit::KilowattHoursPerMile,
    EnergyRateUnit::KilowattHoursPerKilometer,
    EnergyRateUnit::KilowattHoursPerMeter,
];

/// metres per unit
pub fn dist_si(u: DistanceUnit) -> f64 {
    match u {
        DistanceUnit::Meters => 1.0,
        DistanceUnit::Kilometers => 1000.0,
        DistanceUnit::Miles => 1609.344,
        DistanceUnit::Inches => 0.0254,
        DistanceUnit::Feet => 0.3048,
    }
}
/// seconds per unit
pub fn time_si(u: TimeUnit) -> f64 {
    match u {
        TimeUnit::Hours => 3600.0,
        TimeUnit::Minutes => 60.0,
        TimeUnit::Seconds => 1.0,
        TimeUnit::Milliseconds => 0.001,
    }
}
/// metres per second per unit
pub fn speed_si(u: SpeedUnit) -> f64 {
    match u {
        SpeedUnit::KilometersPerHour => 1000.0 / 3600.0,
        SpeedUnit::MilesPerHour => 0.44704,
        SpeedUnit::MetersPerSecond => 1.0,
    }
}
/// decimal grade per unit
pub fn grade_si(u: GradeUnit) -> f64 {
    match u {
        GradeUnit::Percent => 0.01,
        GradeUnit::Decimal => 1.0,
        GradeUnit::Millis => 0.001,
    }
}
/// kilograms per unit (ton = US short ton, 2000 lb)
pub fn weight_si(u: WeightUnit) -> f64 {
    match u {
        WeightUnit::Pounds => 0.45359237,
        WeightUnit::Tons => 907.18474,
        WeightUnit::Kg => 1.0,
    }
}

pub fn conv_dist(x: f64, from: DistanceUnit, to: DistanceUnit) -> f64 {
    x * dist_si(from) / dist_si(to)
}
pub fn conv_time(x: f64, from: TimeUnit, to: TimeUnit) -> f64 {
    x * time_si(from) / time_si(to)
}
pub fn conv_speed(x: f64, from: SpeedUnit, to: SpeedUnit) -> f64 {
    x * speed_si(from) / speed_si(to)
}
pub fn conv_weight(x: f64, from: WeightUnit, to: WeightUnit) -> f64 {
    x * weight_si(from) / weight_si(to)
}

pub fn uname<T: std::fmt::Display>(u: &T) -> String {
    u.to_string()
}

pub fn rel_close(a: f64, b: f64, rel: f64, abs: f64) -> bool {
    if a == b {
        return true;
    }
    if !a.is_finite() || !b.is_finite() {
        return false;
    }
    (a - b).abs() <= abs + rel * a.abs().max(b.abs())
}

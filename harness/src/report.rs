//! per-run report: counters, distinct non-trivial cases, samples, violations; evidence + known findings.
use serde_json::{json, Map, Value};
use std::collections::{BTreeMap, BTreeSet, HashSet};

#[derive(Clone, Debug)]
pub struct Violation {
    pub signature: String,
    pub message: String,
    pub replay: Value,
}

#[derive(Default, Debug)]
pub struct Report {
    pub evaluations: u64,
    pub nontrivial: HashSet<u64>,
    pub samples: Vec<Value>,
    pub counters: BTreeMap<String, u64>,
    pub sets: BTreeMap<String, BTreeSet<String>>,
    pub violations: Vec<Violation>,
    pub viol_by_sig: BTreeMap<String, u64>,
    pub inconclusive: Vec<String>,
    pub max_samples: usize,
}

pub const MAX_KEPT_PER_SIG: u64 = 3;

impl Report {
    pub fn new() -> Report {
        Report {
            max_samples: 6,
            ..Default::default()
        }
    }
    pub fn eval(&mut self) {
        self.evaluations += 1;
    }
    pub fn count(&mut self, key: &str, n: u64) {
        *self.counters.entry(key.to_string()).or_insert(0) += n;
    }
    pub fn max(&mut self, key: &str, v: u64) {
        let e = self.counters.entry(key.to_string()).or_insert(0);
        if v > *e {
            *e = v;
        }
    }
    pub fn seen(&mut self, set: &str, item: impl Into<String>) {
        let s = self.sets.entry(set.to_string()).or_default();
        if s.len() < 4096 {
            s.insert(item.into());
        }
    }
    pub fn nontrivial(&mut self, h: u64) {
        self.nontrivial.insert(h);
    }
    pub fn sample(&mut self, v: impl FnOnce() -> Value) {
        if self.samples.len() < self.max_samples {
            self.samples.push(v());
        }
    }
    pub fn violate(&mut self, signature: &str, message: String, replay: impl FnOnce() -> Value) {
        let n = self.viol_by_sig.entry(signature.to_string()).or_insert(0);
        *n += 1;
        if *n <= MAX_KEPT_PER_SIG {
            self.violations.push(Violation {
                signature: signature.to_string(),
                message,
                replay: replay(),
            });
        }
    }
    pub fn inconclusive(&mut self, why: String) {
        if self.inconclusive.len() < 20 {
            self.inconclusive.push(why);
        }
    }
    /// (de)serialisation for reports handed over by worker subprocesses
    pub fn to_json(&self) -> Value {
        json!({
            "evaluations": self.evaluations,
            "nontrivial": self.nontrivial.iter().collect::<Vec<_>>(),
            "samples": self.samples,
            "counters": self.counters,
            "sets": self.sets,
            "viol_by_sig": self.viol_by_sig,
            "violations": self.violations.iter().map(|v| json!({"signature": v.signature, "message": v.message, "replay": v.replay})).collect::<Vec<_>>(),
            "inconclusive": self.inconclusive,
        })
    }
    pub fn from_json(v: &Value) -> Report {
        let mut r = Report::new();
        r.evaluations = v["evaluations"].as_u64().unwrap_or(0);
        if let Some(a) = v["nontrivial"].as_array() {
            r.nontrivial = a.iter().filter_map(|x| x.as_u64()).collect();
        }
        if let Some(a) = v["samples"].as_array() {
            r.samples = a.clone();
        }
        if let Some(o) = v["counters"].as_object() {
            r.counters = o.iter().map(|(k, x)| (k.clone(), x.as_u64().unwrap_or(0))).collect();
        }
        if let Some(o) = v["sets"].as_object() {
            r.sets = o.iter().map(|(k, x)| (k.clone(), x.as_array().map(|a| a.iter().filter_map(|y| y.as_str().map(String::from)).collect()).unwrap_or_default())).collect();
        }
        if let Some(o) = v["viol_by_sig"].as_object() {
            r.viol_by_sig = o.iter().map(|(k, x)| (k.clone(), x.as_u64().unwrap_or(0))).collect();
        }
        if let Some(a) = v["violations"].as_array() {
            r.violations = a.iter().map(|x| Violation { signature: x["signature"].as_str().unwrap_or("").to_string(), message: x["message"].as_str().unwrap_or("").to_string(), replay: x["replay"].clone() }).collect();
        }
        if let Some(a) = v["inconclusive"].as_array() {
            r.inconclusive = a.iter().filter_map(|x| x.as_str().map(String::from)).collect();
        }
        r
    }

    pub fn merge(&mut self, o: Report) {
        self.evaluations += o.evaluations;
        self.nontrivial.extend(o.nontrivial);
        for s in o.samples {
            if self.samples.len() < self.max_samples.max(6) {
                self.samples.push(s);
            }
        }
        for (k, v) in o.counters {
            if k.starts_with("max_") {
                let e = self.counters.entry(k).or_insert(0);
                if v > *e {
                    *e = v;
                }
            } else {
                *self.counters.entry(k).or_insert(0) += v;
            }
        }
        for (k, v) in o.sets {
            let s = self.sets.entry(k).or_default();
            for i in v {
                if s.len() < 4096 {
                    s.insert(i);
                }
            }
        }
        for (k, v) in o.viol_by_sig {
            *self.viol_by_sig.entry(k).or_insert(0) += v;
        }
        for v in o.violations {
            let kept = self
                .violations
                .iter()
                .filter(|x| x.signature == v.signature)
                .count() as u64;
            if kept < MAX_KEPT_PER_SIG {
                self.violations.push(v);
            }
        }
        for i in o.inconclusive {
            self.inconclusive(i);
        }
    }
}

#[derive(Clone, Debug)]
pub struct KnownFinding {
    pub property: String,
    pub signature: String,
    pub what: String,
    pub status: String, // "open" | "fixed"
    pub commit: Option<String>,
}

pub fn load_known(path: &str) -> Vec<KnownFinding> {
    let txt = match std::fs::read_to_string(path) {
        Ok(t) => t,
        Err(_) => return vec![],
    };
    let v: Value = match serde_json::from_str(&txt) {
        Ok(v) => v,
        Err(e) => {
            eprintln!("known findings file unreadable: {e}");
            return vec![];
        }
    };
    let mut out = vec![];
    if let Some(arr) = v.get("findings").and_then(|a| a.as_array()) {
        for f in arr {
            out.push(KnownFinding {
                property: f["property"].as_str().unwrap_or("").to_string(),
                signature: f["signature"].as_str().unwrap_or("").to_string(),
                what: f["what"].as_str().unwrap_or("").to_string(),
                status: f["status"].as_str().unwrap_or("open").to_string(),
                commit: f.get("commit").and_then(|c| c.as_str()).map(String::from),
            });
        }
    }
    out
}

pub struct Meta {
    pub property: String,
    pub tier: String,
    pub seed: u64,
    pub rule: String,
    pub assumptions: Vec<String>,
    pub floor: u64,
    pub exhaustive: bool,
    pub explanation: String,
}

/// finalise a run: match violations against known findings, print the interface lines, write
/// evidence, and return the process exit code (0 held / 1 violation / 2 inconclusive).
pub fn finalise(meta: &Meta, rep: &Report, wall_s: f64, verif_root: &str) -> i32 {
    let known = load_known(&format!("{verif_root}/known_findings.json"));
    let open: Vec<&KnownFinding> = known
        .iter()
        .filter(|k| k.property == meta.property && k.status == "open")
        .collect();
    let open_sigs: BTreeSet<&str> = open.iter().map(|k| k.signature.as_str()).collect();

    let mut new_sigs: BTreeMap<String, &Violation> = BTreeMap::new();
    let mut known_counts: BTreeMap<String, u64> = BTreeMap::new();
    for (sig, n) in &rep.viol_by_sig {
        if open_sigs.contains(sig.as_str()) {
            known_counts.insert(sig.clone(), *n);
        }
    }
    for v in &rep.violations {
        if !open_sigs.contains(v.signature.as_str()) {
            new_sigs.entry(v.signature.clone()).or_insert(v);
        }
    }
    let _ = std::fs::create_dir_all(format!("{verif_root}/replay"));
    let mut new_total = 0u64;
    for (sig, v) in &new_sigs {
        let n = rep.viol_by_sig.get(sig).copied().unwrap_or(1);
        new_total += n;
        let h = crate::rng::hash_str(&format!("{sig}{}", v.message));
        let path = format!("{verif_root}/replay/{}-{:016x}.json", meta.property, h);
        let body = json!({
            "property": meta.property,
            "signature": sig,
            "message": v.message,
            "occurrences": n,
            "seed": meta.seed,
            "tier": meta.tier,
            "replay": v.replay,
        });
        let _ = std::fs::write(&path, serde_json::to_string_pretty(&body).unwrap_or_default());
        println!("VIOLATION property={} replay={}", meta.property, path);
        println!("  signature: {sig}");
        let msg: String = v.message.chars().take(600).collect();
        println!("  {msg}");
    }
    for k in &open {
        match known_counts.get(&k.signature) {
            Some(n) => println!(
                "KNOWN-FINDING: property={} {} [signature {} reproduced {}x]",
                meta.property, k.what, k.signature, n
            ),
            None => println!(
                "NOTE: listed finding not reproduced in this run (property={} signature={})",
                meta.property, k.signature
            ),
        }
    }

    let distinct = rep.nontrivial.len() as u64;
    let mut verdict = "held";
    let mut code = 0;
    if !rep.inconclusive.is_empty() {
        verdict = "inconclusive";
        code = 2;
    }
    if distinct < meta.floor.max(2) || rep.evaluations == 0 {
        verdict = "inconclusive";
        code = 2;
        println!(
            "INCONCLUSIVE property={} evidence floor not met: {} distinct non-trivial cases < {}",
            meta.property, distinct, meta.floor
        );
    }
    for i in &rep.inconclusive {
        println!("INCONCLUSIVE property={} {}", meta.property, i);
    }
    if new_total > 0 {
        verdict = "violated";
        code = 1;
    }

    let mut coverage = Map::new();
    coverage.insert("evaluations".into(), json!(rep.evaluations));
    coverage.insert("distinct_nontrivial".into(), json!(distinct));
    coverage.insert("rule".into(), json!(meta.rule));
    coverage.insert(
        "samples".into(),
        Value::Array(if rep.samples.is_empty() {
            vec![json!("no sample recorded")]
        } else {
            rep.samples.clone()
        }),
    );
    coverage.insert("exhaustive".into(), json!(meta.exhaustive));
    coverage.insert("explanation".into(), json!(meta.explanation));
    coverage.insert("counters".into(), json!(rep.counters));
    let mut sets = Map::new();
    for (k, v) in &rep.sets {
        let items: Vec<&String> = v.iter().take(40).collect();
        sets.insert(k.clone(), json!({"distinct": v.len(), "items": items}));
    }
    coverage.insert("observed".into(), Value::Object(sets));
    coverage.insert("verdict".into(), json!(verdict));
    coverage.insert(
        "known_findings_reproduced".into(),
        json!(known_counts),
    );
    coverage.insert(
        "new_violation_signatures".into(),
        json!(new_sigs.keys().collect::<Vec<_>>()),
    );
    coverage.insert("evidence_floor".into(), json!(meta.floor));
    let ev = json!({
        "property_id": meta.property,
        "tier": meta.tier,
        "seed": meta.seed,
        "level": "exploration",
        "coverage": Value::Object(coverage),
        "assumptions": meta.assumptions,
        "wall_s": (wall_s * 1000.0).round() / 1000.0,
        "violations": new_total,
    });
    let _ = std::fs::create_dir_all(format!("{verif_root}/evidence"));
    let path = format!("{verif_root}/evidence/{}.json", meta.property);
    if let Err(e) = std::fs::write(&path, serde_json::to_string_pretty(&ev).unwrap_or_default()) {
        println!("INCONCLUSIVE property={} cannot write evidence: {e}", meta.property);
        return 2;
    }
    println!(
        "{} {} tier={} seed={} evaluations={} distinct_nontrivial={} known={} new_violations={} wall={:.1}s",
        meta.property,
        verdict.to_uppercase(),
        meta.tier,
        meta.seed,
        rep.evaluations,
        distinct,
        known_counts.values().sum::<u64>(),
        new_total,
        wall_s
    );
    code
}

//! generators for frontier restrictions together with their independent oracle (allowed-edge mask).
use crate::gen::net::RefNet;
use crate::oracle::units as U;
use crate::rng::Rng;
use crate::world::FrontierCfg;
use serde_json::{json, Map, Value};

pub const CLASS_NAMES: [&str; 5] = ["motorway", "primary", "secondary", "residential", "track"];

#[derive(Clone, Debug)]
pub struct Restrictions {
    pub cfg: FrontierCfg,
    /// fields to merge into the query (road_classes, vehicle_parameters)
    pub query_fields: Map<String, Value>,
    /// independent oracle: may edge e be used
    pub allowed: Vec<bool>,
    /// per inner model (in `cfg` order for Combined) the individual masks, for the conjunction clause
    pub inner_allowed: Vec<Vec<bool>>,
    pub kinds: Vec<&'static str>,
}

fn gen_road_class(rng: &mut Rng, net: &RefNet) -> (FrontierCfg, Map<String, Value>, Vec<bool>) {
    let ne = net.ne();
    let classes: Vec<u8> = (0..ne).map(|_| rng.below(5) as u8).collect();
    let with_mapping = rng.chance(0.5);
    let mapping: Vec<(String, u8)> = if with_mapping { CLASS_NAMES.iter().enumerate().map(|(i, n)| (n.to_string(), i as u8)).collect() } else { vec![] };
    let mut q = Map::new();
    let mut allowed = vec![true; ne];
    if rng.chance(0.9) {
        let set: Vec<u8> = (0..5u8).filter(|_| rng.chance(0.65)).collect();
        if with_mapping && rng.chance(0.6) {
            q.insert("road_classes".into(), json!(set.iter().map(|c| CLASS_NAMES[*c as usize]).collect::<Vec<_>>()));
        } else {
            q.insert("road_classes".into(), json!(set));
        }
        for e in 0..ne {
            allowed[e] = set.contains(&classes[e]);
        }
    }
    (FrontierCfg::RoadClass { classes, mapping }, q, allowed)
}

const DIST_NAMES: [&str; 5] = ["meters", "kilometers", "miles", "inches", "feet"];
const WEIGHT_NAMES: [&str; 3] = ["pounds", "tons", "kg"];

fn gen_vehicle(rng: &mut Rng, net: &RefNet) -> (FrontierCfg, Map<String, Value>, Vec<bool>) {
    let ne = net.ne();
    // vehicle in SI
    let height_m = rng.frange(1.5, 4.5);
    let width_m = rng.frange(1.5, 3.0);
    let length_m = rng.frange(4.0, 25.0);
    let trailer_m = rng.frange(0.0, 16.0).max(0.5);
    let weight_kg = rng.frange(1000.0, 40000.0);
    let axles = rng.urange(2, 6) as u64;
    let du = |rng: &mut Rng| rng.below(5);
    let wu = rng.below(3);
    let (hu, wdu, lu, tu) = (du(rng), du(rng), du(rng), du(rng));
    let q_dist = |si: f64, u: usize| json!([si / U::dist_si(U::DISTANCE_UNITS[u]), DIST_NAMES[u]]);
    let mut vp = Map::new();
    vp.insert("height".into(), q_dist(height_m, hu));
    vp.insert("width".into(), q_dist(width_m, wdu));
    vp.insert("total_length".into(), q_dist(length_m, lu));
    vp.insert("trailer_length".into(), q_dist(trailer_m, tu));
    vp.insert("total_weight".into(), json!([weight_kg / U::weight_si(U::WEIGHT_UNITS[wu]), WEIGHT_NAMES[wu]]));
    vp.insert("number_of_axles".into(), json!(axles));
    let mut q = Map::new();
    q.insert("vehicle_parameters".into(), Value::Object(vp));
    let mut rows = vec![];
    let mut allowed = vec![true; ne];
    for e in 0..ne {
        if !rng.chance(0.45) {
            continue;
        }
        let nr = rng.urange(1, 2);
        for _ in 0..nr {
            // limit placed >= 1 % away from the vehicle's value on either side, or exactly equal in the same unit
            let over = rng.chance(0.45);
            let f = if over { rng.frange(0.5, 0.99) } else { rng.frange(1.01, 2.0) };
            let kind = rng.below(6);
            let (name, veh_si, is_weight, same_unit) = match kind {
                0 => ("maximum_total_weight", weight_kg, true, wu),
                1 => ("maximum_weight_per_axle", weight_kg / axles as f64, true, wu),
                2 => ("maximum_length", length_m, false, lu),
                3 => ("maximum_width", width_m, false, wdu),
                4 => ("maximum_height", height_m, false, hu),
                _ => ("maximum_trailer_length", trailer_m, false, tu),
            };
            let exact = rng.chance(0.1) && kind != 1;
            if exact {
                // exactly at the limit, same unit as the vehicle parameter: permitted (<=)
                let (val, unit) = if is_weight {
                    (weight_kg / U::weight_si(U::WEIGHT_UNITS[same_unit]), WEIGHT_NAMES[same_unit])
                } else {
                    (veh_si / U::dist_si(U::DISTANCE_UNITS[same_unit]), DIST_NAMES[same_unit])
                };
                rows.push((e, name.to_string(), val, unit.to_string()));
                continue;
            }
            let limit_si = veh_si * f;
            let (val, unit) = if is_weight {
                let u = rng.below(3);
                (limit_si / U::weight_si(U::WEIGHT_UNITS[u]), WEIGHT_NAMES[u])
            } else {
                let u = rng.below(5);
                (limit_si / U::dist_si(U::DISTANCE_UNITS[u]), DIST_NAMES[u])
            };
            rows.push((e, name.to_string(), val, unit.to_string()));
            if over {
                allowed[e] = false;
            }
        }
    }
    (FrontierCfg::Vehicle { rows }, q, allowed)
}

/// a vehicle-restriction table for `net` (batch workloads: the vehicle comes with each query)
pub fn gen_vehicle_cfg(rng: &mut Rng, net: &RefNet) -> FrontierCfg {
    gen_vehicle(rng, net).0
}

/// well-formed vehicle parameters in random units
pub fn random_vehicle_parameters(rng: &mut Rng) -> Value {
    let d = |lo: f64, hi: f64, rng: &mut Rng| {
        let u = rng.below(5);
        json!([rng.frange(lo, hi) / U::dist_si(U::DISTANCE_UNITS[u]), DIST_NAMES[u]])
    };
    let wu = rng.below(3);
    json!({
        "height": d(1.5, 4.5, rng),
        "width": d(1.5, 3.0, rng),
        "total_length": d(4.0, 25.0, rng),
        "trailer_length": d(0.5, 16.0, rng),
        "total_weight": [rng.frange(1000.0, 40000.0) / U::weight_si(U::WEIGHT_UNITS[wu]), WEIGHT_NAMES[wu]],
        "number_of_axles": rng.urange(2, 6),
    })
}

/// edge-local restrictions: road classes, vehicle restrictions, or their conjunction
pub fn gen_edge_local(rng: &mut Rng, net: &RefNet) -> Restrictions {
    let ne = net.ne();
    match rng.below(5) {
        4 => {
            // one vehicle, two restriction tables (a combined model may hold several models of the same type): the
            // rows of a generated table are dealt out to two tables, optionally next to a road-class model
            let (c, q, allowed) = gen_vehicle(rng, net);
            let FrontierCfg::Vehicle { rows } = c else { unreachable!() };
            let (mut r1, mut r2) = (vec![], vec![]);
            for row in rows {
                if rng.chance(0.5) {
                    r1.push(row)
                } else {
                    r2.push(row)
                }
            }
            let (c1, c2) = (FrontierCfg::Vehicle { rows: r1 }, FrontierCfg::Vehicle { rows: r2 });
            let query = Value::Object(q.clone());
            let a1 = oracle_allowed(&c1, &query, ne).unwrap_or_else(|| vec![true; ne]);
            let a2 = oracle_allowed(&c2, &query, ne).unwrap_or_else(|| vec![true; ne]);
            Restrictions { cfg: FrontierCfg::Combined(vec![c1, c2]), query_fields: q, allowed, inner_allowed: vec![a1, a2], kinds: vec!["combined(vehicle,vehicle)"] }
        }
        0 => Restrictions { cfg: FrontierCfg::None, query_fields: Map::new(), allowed: vec![true; ne], inner_allowed: vec![], kinds: vec!["none"] },
        1 => {
            let (c, q, a) = gen_road_class(rng, net);
            Restrictions { cfg: c, query_fields: q, allowed: a.clone(), inner_allowed: vec![a], kinds: vec!["road_class"] }
        }
        2 => {
            let (c, q, a) = gen_vehicle(rng, net);
            Restrictions { cfg: c, query_fields: q, allowed: a.clone(), inner_allowed: vec![a], kinds: vec!["vehicle"] }
        }
        _ => {
            let (c1, q1, a1) = gen_road_class(rng, net);
            let (c2, q2, a2) = gen_vehicle(rng, net);
            let mut q = q1;
            q.extend(q2);
            let allowed = a1.iter().zip(&a2).map(|(x, y)| *x && *y).collect();
            let (cfgs, inner) = if rng.chance(0.5) { (vec![c1, c2], vec![a1, a2]) } else { (vec![c2, c1], vec![a2, a1]) };
            Restrictions { cfg: FrontierCfg::Combined(cfgs), query_fields: q, allowed, inner_allowed: inner, kinds: vec!["combined(road_class,vehicle)"] }
        }
    }
}

pub fn query_with(fields: &Map<String, Value>) -> Value {
    Value::Object(fields.clone())
}

// ------------------------------------------------------------------------------------------
// oracle evaluation from the raw configuration + query (used for directed / replayed cases and as a
// self-check of the generator's mask)
// ------------------------------------------------------------------------------------------

fn dist_unit_si(name: &str) -> Option<f64> {
    DIST_NAMES.iter().position(|n| *n == name).map(|i| U::dist_si(U::DISTANCE_UNITS[i]))
}
fn weight_unit_si(name: &str) -> Option<f64> {
    WEIGHT_NAMES.iter().position(|n| *n == name).map(|i| U::weight_si(U::WEIGHT_UNITS[i]))
}

/// per-edge permission of one frontier configuration under `query`; `None` for models that are not edge-local
pub fn oracle_allowed(cfg: &FrontierCfg, query: &Value, ne: usize) -> Option<Vec<bool>> {
    match cfg {
        FrontierCfg::None => Some(vec![true; ne]),
        FrontierCfg::Turn { .. } => Some(vec![true; ne]),
        FrontierCfg::RoadClass { classes, mapping } => {
            let mut allowed = vec![true; ne];
            if let Some(rc) = query.get("road_classes").and_then(|v| v.as_array()) {
                let set: Vec<u8> = rc
                    .iter()
                    .filter_map(|x| match x {
                        Value::Number(n) => n.as_u64().map(|v| v as u8),
                        Value::String(s) => mapping.iter().find(|(k, _)| k == s).map(|(_, v)| *v),
                        _ => None,
                    })
                    .collect();
                for e in 0..ne {
                    allowed[e] = set.contains(&classes[e]);
                }
            }
            Some(allowed)
        }
        FrontierCfg::Vehicle { rows } => {
            let vp = query.get("vehicle_parameters")?;
            let d = |k: &str| -> Option<f64> { Some(vp[k][0].as_f64()? * dist_unit_si(vp[k][1].as_str()?)?) };
            let weight = vp["total_weight"][0].as_f64()? * weight_unit_si(vp["total_weight"][1].as_str()?)?;
            let axles = vp["number_of_axles"].as_u64()? as f64;
            let mut allowed = vec![true; ne];
            for (e, name, val, unit) in rows {
                let (veh, limit) = match name.as_str() {
                    "maximum_total_weight" => (weight, val * weight_unit_si(unit)?),
                    "maximum_weight_per_axle" => (weight / axles, val * weight_unit_si(unit)?),
                    "maximum_length" => (d("total_length")?, val * dist_unit_si(unit)?),
                    "maximum_width" => (d("width")?, val * dist_unit_si(unit)?),
                    "maximum_height" => (d("height")?, val * dist_unit_si(unit)?),
                    "maximum_trailer_length" => (d("trailer_length")?, val * dist_unit_si(unit)?),
                    _ => return None,
                };
                // equality (to rounding) is permitted
                if veh > limit * (1.0 + 1e-9) && *e < ne {
                    allowed[*e] = false;
                }
            }
            Some(allowed)
        }
        FrontierCfg::Combined(v) => {
            let mut allowed = vec![true; ne];
            for c in v {
                let a = oracle_allowed(c, query, ne)?;
                for e in 0..ne {
                    allowed[e] = allowed[e] && a[e];
                }
            }
            Some(allowed)
        }
    }
}

/// all restricted turn pairs listed anywhere in the configuration
pub fn oracle_restricted_turns(cfg: &FrontierCfg) -> Vec<(usize, usize)> {
    match cfg {
        FrontierCfg::Turn { pairs } => pairs.clone(),
        FrontierCfg::Combined(v) => v.iter().flat_map(oracle_restricted_turns).collect(),
        _ => vec![],
    }
}

//! deterministic parallel case runner: case i always gets rng stream fork(i), whatever the thread count.
use crate::report::Report;
use crate::rng::Rng;
use std::sync::atomic::{AtomicUsize, Ordering};

pub fn threads() -> usize {
    std::env::var("VERIF_THREADS")
        .ok()
        .and_then(|s| s.parse().ok())
        .unwrap_or_else(|| std::thread::available_parallelism().map(|n| n.get()).unwrap_or(4))
        .max(1)
}

pub fn par_cases(seed: u64, n_cases: usize, f: impl Fn(usize, &mut Rng, &mut Report) + Sync) -> Report {
    let base = Rng::new(seed);
    let next = AtomicUsize::new(0);
    let nt = threads().min(n_cases.max(1));
    let mut total = Report::new();
    let reports: Vec<Report> = std::thread::scope(|s| {
        let hs: Vec<_> = (0..nt)
            .map(|_| {
                s.spawn(|| {
                    let mut rep = Report::new();
                    loop {
                        let i = next.fetch_add(1, Ordering::Relaxed);
                        if i >= n_cases {
                            break;
                        }
                        let mut rng = base.fork(i as u64 + 1);
                        f(i, &mut rng, &mut rep);
                    }
                    rep
                })
            })
            .collect();
        hs.into_iter()
            .map(|h| match h.join() {
                Ok(r) => r,
                Err(_) => {
                    let mut r = Report::new();
                    r.inconclusive("a harness worker thread panicked outside a monitored call".into());
                    r
                }
            })
            .collect()
    });
    for r in reports {
        total.merge(r);
    }
    total
}

//! shared helpers for the core-level search monitors (C01, C02, C03, C04, C05, C10, C13).
use crate::gen::net::RefNet;
use crate::oracle::route::Od;
use crate::oracle::units::rel_close;
use crate::rng::Rng;
use crate::world::{rate_value, World};
use routee_compass_core::algorithm::search::edge_traversal::EdgeTraversal;
use routee_compass_core::algorithm::search::search_instance::SearchInstance;
use routee_compass_core::model::network::EdgeId;
use routee_compass_core::model::traversal::state::state_variable::StateVar;
use routee_compass_core::model::unit::as_f64::AsF64;

pub fn gen_vertex_od(rng: &mut Rng, net: &RefNet, with_dest: bool) -> Od {
    let n = net.nv();
    let o = rng.below(n);
    if !with_dest {
        return Od::Vertex(o, None);
    }
    let mut d = rng.below(n);
    let mut tries = 0;
    while d == o && tries < 20 {
        d = rng.below(n);
        tries += 1;
    }
    Od::Vertex(o, Some(d))
}

pub fn gen_edge_od(rng: &mut Rng, net: &RefNet, with_dest: bool) -> Od {
    let m = net.ne();
    let o = rng.below(m);
    if !with_dest {
        return Od::Edge(o, None);
    }
    let mut d = rng.below(m);
    let mut tries = 0;
    while d == o && tries < 20 {
        d = rng.below(m);
        tries += 1;
    }
    Od::Edge(o, Some(d))
}

/// per-edge state change of `world`'s traversal model measured by one real `traverse_edge`
/// from `start`; returns deltas[e][slot]
pub fn measure_deltas(si: &SearchInstance, start: &[StateVar]) -> Result<Vec<Vec<f64>>, String> {
    let g = &si.directed_graph;
    let mut out = vec![];
    for e in 0..g.n_edges() {
        let tri = g.edge_triplet(&EdgeId(e)).map_err(|e| e.to_string())?;
        let mut s = start.to_vec();
        si.traversal_model.traverse_edge(tri, &mut s, &si.state_model).map_err(|e| e.to_string())?;
        out.push(s.iter().zip(start).map(|(a, b)| a.0 - b.0).collect());
    }
    Ok(out)
}

/// independent per-edge cost (sum aggregation): max(sum_f w_f * rate_f(delta_f) + sum_f w_f * surcharge_f(e), 1e-10).
/// `None` when the per-edge state change depends on the state it starts from (precondition of C02 not met).
pub fn independent_edge_costs(world: &World, si: &SearchInstance) -> Result<Option<Vec<f64>>, String> {
    let init = si.state_model.initial_state().map_err(|e| e.to_string())?;
    let d0 = measure_deltas(si, &init)?;
    let shifted: Vec<StateVar> = init.iter().enumerate().map(|(i, s)| StateVar(s.0 + 37.5 + 11.0 * i as f64)).collect();
    let d1 = measure_deltas(si, &shifted)?;
    for (a, b) in d0.iter().zip(&d1) {
        for (x, y) in a.iter().zip(b) {
            if !rel_close(*x, *y, 1e-9, 1e-12) {
                return Ok(None);
            }
        }
    }
    let names: Vec<String> = si.state_model.indexed_iter().map(|(_, (n, _))| n.clone()).collect();
    let w_of = |n: &String| world.cost.weights.iter().find(|(k, _)| k == n).map(|(_, w)| *w).unwrap_or(0.0);
    let mut costs = vec![];
    for e in 0..world.net.ne() {
        let mut c = 0.0;
        for (i, n) in names.iter().enumerate() {
            let w = w_of(n);
            let rate = world.cost.vehicle_rates.iter().find(|(k, _)| k == n).map(|(_, r)| rate_value(r, d0[e][i])).unwrap_or(0.0);
            let sur: f64 = world.cost.edge_surcharge.iter().filter(|(k, _)| k == n).map(|(_, t)| t.get(&e).copied().unwrap_or(0.0)).sum();
            c += w * rate + w * sur;
        }
        costs.push(if c <= 0.0 { 1e-10 } else { c });
    }
    Ok(Some(costs))
}

pub fn route_cost(route: &[EdgeTraversal]) -> f64 {
    route.iter().map(|e| e.total_cost().as_f64()).sum()
}

/// the forbidden-edge mask of an edge-local frontier configuration for a given query (true = allowed)
pub fn all_allowed(net: &RefNet) -> Vec<bool> {
    vec![true; net.ne()]
}

/// true when, in any (sub-)search of the recorded call, a label was improved for a vertex that had
/// already been expanded (the vertex was "re-opened"): its children in the tree may then carry a
/// state computed from the superseded label.
pub fn had_reopen(events: &[crate::hooks::Ev]) -> bool {
    use crate::hooks::Ev;
    let mut popped: std::collections::HashSet<usize> = std::collections::HashSet::new();
    for ev in events {
        match ev {
            Ev::SearchStart { .. } => popped.clear(),
            Ev::Pop { vertex, .. } => {
                popped.insert(*vertex);
            }
            Ev::Relax { key_vertex, accepted: true, .. } => {
                if popped.contains(key_vertex) {
                    return true;
                }
            }
            _ => {}
        }
    }
    false
}

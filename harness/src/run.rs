//! run the repo's search algorithms on a world under the hook context.
use crate::hooks::{with_ctx, Budget, Caught, Ctx};
use crate::oracle::route::Od;
use crate::rng::Rng;
use routee_compass_core::algorithm::search::direction::Direction;
use routee_compass_core::algorithm::search::ksp::ksp_termination_criteria::KspTerminationCriteria;
use routee_compass_core::algorithm::search::search_algorithm::SearchAlgorithm;
use routee_compass_core::algorithm::search::search_algorithm_result::SearchAlgorithmResult;
use routee_compass_core::algorithm::search::search_error::SearchError;
use routee_compass_core::algorithm::search::search_instance::SearchInstance;
use routee_compass_core::algorithm::search::util::route_similarity_function::RouteSimilarityFunction;
use routee_compass_core::model::network::{EdgeId, VertexId};
use routee_compass_core::model::unit::Cost;
use serde_json::{json, Value};

#[derive(Clone, Debug)]
pub enum Sim {
    Default,
    AcceptAll,
    EdgeIdCosine(f64),
    DistanceCosine(f64),
}

#[derive(Clone, Debug)]
pub enum KTerm {
    Default,
    Exact,
    MaxIteration(u64),
    Factor(u64),
}

#[derive(Clone, Debug)]
pub enum Alg {
    Dijkstra,
    AStar(Option<f64>),
    SingleVia { k: usize, under: Box<Alg>, sim: Sim, term: KTerm },
    Yens { k: usize, under: Box<Alg>, sim: Sim, term: KTerm },
}

impl Alg {
    pub fn name(&self) -> String {
        match self {
            Alg::Dijkstra => "dijkstra".into(),
            Alg::AStar(w) => format!("a*({})", w.map(|x| x.to_string()).unwrap_or("none".into())),
            Alg::SingleVia { k, under, sim, term } => format!("single_via(k={k},{},{:?},{:?})", under.name(), sim, term),
            Alg::Yens { k, under, sim, term } => format!("yens(k={k},{},{:?},{:?})", under.name(), sim, term),
        }
    }
    pub fn family(&self) -> &'static str {
        match self {
            Alg::Dijkstra => "dijkstra",
            Alg::AStar(_) => "a*",
            Alg::SingleVia { .. } => "single_via",
            Alg::Yens { .. } => "yens",
        }
    }
    pub fn is_ksp(&self) -> bool {
        matches!(self, Alg::SingleVia { .. } | Alg::Yens { .. })
    }
    pub fn build(&self) -> SearchAlgorithm {
        let sim_of = |s: &Sim| match s {
            Sim::Default => None,
            Sim::AcceptAll => Some(RouteSimilarityFunction::AcceptAll),
            Sim::EdgeIdCosine(t) => Some(RouteSimilarityFunction::EdgeIdCosineSimilarity { threshold: *t }),
            Sim::DistanceCosine(t) => Some(RouteSimilarityFunction::DistanceWeightedCosineSimilarity { threshold: *t }),
        };
        let term_of = |t: &KTerm| match t {
            KTerm::Default => None,
            KTerm::Exact => Some(KspTerminationCriteria::Exact),
            KTerm::MaxIteration(m) => Some(KspTerminationCriteria::MaxIteration { max: *m }),
            KTerm::Factor(f) => Some(KspTerminationCriteria::Factor { factor: *f }),
        };
        match self {
            Alg::Dijkstra => SearchAlgorithm::Dijkstra,
            Alg::AStar(w) => SearchAlgorithm::AStarAlgorithm { weight_factor: w.map(Cost::new) },
            Alg::SingleVia { k, under, sim, term } => SearchAlgorithm::KspSingleVia {
                k: *k,
                underlying: Box::new(under.build()),
                similarity: sim_of(sim),
                termination: term_of(term),
            },
            Alg::Yens { k, under, sim, term } => SearchAlgorithm::Yens {
                k: *k,
                underlying: Box::new(under.build()),
                similarity: sim_of(sim),
                termination: term_of(term),
            },
        }
    }
    pub fn to_json(&self) -> Value {
        json!(self.name())
    }
}

pub fn gen_plain_alg(rng: &mut Rng, any_wf: bool) -> Alg {
    match rng.below(3) {
        0 => Alg::Dijkstra,
        1 => Alg::AStar(None),
        _ => {
            let wfs: &[f64] = if any_wf { &[0.0, 0.5, 1.0, 1.5, 5.0] } else { &[0.0, 0.5, 1.0] };
            Alg::AStar(Some(*rng.pick(wfs)))
        }
    }
}

pub fn gen_sim(rng: &mut Rng) -> Sim {
    match rng.below(4) {
        0 => Sim::Default,
        1 => Sim::AcceptAll,
        // thresholds up to and beyond 1 (where only identical routes are "too similar")
        2 => Sim::EdgeIdCosine(*rng.pick(&[0.1, 0.3, 0.5, 0.7, 0.9, 0.99, 1.0, 1.5])),
        _ => Sim::DistanceCosine(*rng.pick(&[0.1, 0.3, 0.5, 0.7, 0.9, 0.99, 1.0, 1.5])),
    }
}

pub fn gen_kterm(rng: &mut Rng, k: usize) -> KTerm {
    match rng.below(4) {
        0 => KTerm::Default,
        1 => KTerm::Exact,
        2 => KTerm::MaxIteration(rng.urange(k, k + 5) as u64),
        _ => KTerm::Factor(rng.urange(2, 4) as u64),
    }
}

pub type SearchOut = Result<Result<SearchAlgorithmResult, SearchError>, Caught>;

/// logical budgets for one call: generous multiples of the worst legitimate counts.
/// a correct k-shortest-path outer loop turns at most k times (Yen) or once per intersection vertex
/// (single-via); a correct Yen evaluates at most one spur per route position per accepted route.
pub fn step_budget(nv: usize, ne: usize, k: usize) -> Budget {
    let k = k.max(1) as u64;
    Budget {
        steps: 64 * (nv + ne) as u64 * k * (k + 2) + 10_000,
        ksp_outer: 4 * (nv as u64 + 2 * k) + 64,
        ksp_inner: 8 * (k + 1) * (nv as u64 + 1) + 256,
    }
}

pub fn run_search(
    alg: &Alg,
    si: &SearchInstance,
    od: Od,
    reverse: bool,
    query: &Value,
    budget: Budget,
    record: bool,
) -> (SearchOut, Ctx) {
    let sa = alg.build();
    let dir = if reverse { Direction::Reverse } else { Direction::Forward };
    with_ctx(budget, record, || match od {
        Od::Vertex(s, d) => sa.run_vertex_oriented(VertexId(s), d.map(VertexId), query, &dir, si),
        Od::Edge(s, d) => sa.run_edge_oriented(EdgeId(s), d.map(EdgeId), query, &dir, si),
    })
}

pub fn err_class(e: &SearchError) -> String {
    match e {
        SearchError::NoPathExistsBetweenVertices(_, _) => "no_path_vertices".into(),
        SearchError::NoPathExistsBetweenEdges(_, _) => "no_path_edges".into(),
        SearchError::TerminationModelFailure { .. } => "terminated".into(),
        SearchError::QueryTerminated(_) => "query_terminated".into(),
        SearchError::InternalError(m) => {
            let m: String = m.chars().take(30).map(|c| if c.is_ascii_digit() { '#' } else { c }).collect();
            format!("internal:{m}")
        }
        SearchError::BuildError(_) => "build".into(),
        SearchError::StateFailure { .. } => "state".into(),
        SearchError::NetworkFailure { .. } => "network".into(),
        SearchError::TraversalModelFailure { .. } => "traversal".into(),
        SearchError::AccessModelFailure { .. } => "access".into(),
        SearchError::FrontierModelFailure { .. } => "frontier".into(),
        SearchError::CostFailure { .. } => "cost".into(),
        SearchError::ReadOnlyPoisonError(_) => "poison".into(),
    }
}

//! JSON round trip for worlds, algorithms and query cases (replay files and directed cases).
use crate::gen::net::RefNet;
use crate::oracle::route::Od;
use crate::oracle::units as U;
use crate::run::{Alg, KTerm, Sim};
use crate::world::{AccessCfg, CostCfg, FrontierCfg, StateCfg, TermCfg, TravCfg, World};
use routee_compass_core::model::cost::cost_aggregation::CostAggregation;
use routee_compass_core::model::cost::vehicle::vehicle_cost_rate::VehicleCostRate;
use routee_compass_core::model::unit::{DistanceUnit, SpeedUnit, TimeUnit};
use serde_json::{json, Value};
use std::collections::HashMap;

fn du(s: &str) -> Option<DistanceUnit> {
    U::DISTANCE_UNITS.iter().copied().find(|u| u.to_string() == s)
}
fn tu(s: &str) -> Option<TimeUnit> {
    U::TIME_UNITS.iter().copied().find(|u| u.to_string() == s)
}
fn su(s: &str) -> Option<SpeedUnit> {
    U::SPEED_UNITS.iter().copied().find(|u| u.to_string() == s)
}

/// vehicle cost rates: the repo's own serde form cannot represent `Combined` (a sequence inside an
/// internally tagged enum), so replay files use an explicit form
pub fn rate_to_json(r: &VehicleCostRate) -> Value {
    match r {
        VehicleCostRate::Zero => json!({"type": "zero"}),
        VehicleCostRate::Raw => json!({"type": "raw"}),
        VehicleCostRate::Factor { factor } => json!({"type": "factor", "factor": factor}),
        VehicleCostRate::Offset { offset } => json!({"type": "offset", "offset": offset}),
        VehicleCostRate::Combined(v) => json!({"type": "combined", "rates": v.iter().map(rate_to_json).collect::<Vec<_>>()}),
    }
}
pub fn rate_from_json(v: &Value) -> Option<VehicleCostRate> {
    match v["type"].as_str()? {
        "zero" => Some(VehicleCostRate::Zero),
        "raw" => Some(VehicleCostRate::Raw),
        "factor" => Some(VehicleCostRate::Factor { factor: v["factor"].as_f64()? }),
        "offset" => Some(VehicleCostRate::Offset { offset: v["offset"].as_f64()? }),
        "combined" => Some(VehicleCostRate::Combined(v["rates"].as_array()?.iter().filter_map(rate_from_json).collect())),
        _ => None,
    }
}

pub fn od_to_json(od: &Od) -> Value {
    match od {
        Od::Vertex(o, d) => json!({"kind": "vertex", "o": o, "d": d}),
        Od::Edge(o, d) => json!({"kind": "edge", "o": o, "d": d}),
    }
}
pub fn od_from_json(v: &Value) -> Option<Od> {
    let o = v["o"].as_u64()? as usize;
    let d = v["d"].as_u64().map(|x| x as usize);
    match v["kind"].as_str()? {
        "vertex" => Some(Od::Vertex(o, d)),
        "edge" => Some(Od::Edge(o, d)),
        _ => None,
    }
}

fn sim_to_json(s: &Sim) -> Value {
    match s {
        Sim::Default => json!("default"),
        Sim::AcceptAll => json!("accept_all"),
        Sim::EdgeIdCosine(t) => json!({"edge_id_cosine": t}),
        Sim::DistanceCosine(t) => json!({"distance_cosine": t}),
    }
}
fn sim_from_json(v: &Value) -> Option<Sim> {
    if let Some(s) = v.as_str() {
        return match s {
            "default" => Some(Sim::Default),
            "accept_all" => Some(Sim::AcceptAll),
            _ => None,
        };
    }
    if let Some(t) = v.get("edge_id_cosine").and_then(|t| t.as_f64()) {
        return Some(Sim::EdgeIdCosine(t));
    }
    v.get("distance_cosine").and_then(|t| t.as_f64()).map(Sim::DistanceCosine)
}
fn kterm_to_json(t: &KTerm) -> Value {
    match t {
        KTerm::Default => json!("default"),
        KTerm::Exact => json!("exact"),
        KTerm::MaxIteration(m) => json!({"max_iteration": m}),
        KTerm::Factor(f) => json!({"factor": f}),
    }
}
fn kterm_from_json(v: &Value) -> Option<KTerm> {
    if let Some(s) = v.as_str() {
        return match s {
            "default" => Some(KTerm::Default),
            "exact" => Some(KTerm::Exact),
            _ => None,
        };
    }
    if let Some(m) = v.get("max_iteration").and_then(|t| t.as_u64()) {
        return Some(KTerm::MaxIteration(m));
    }
    v.get("factor").and_then(|t| t.as_u64()).map(KTerm::Factor)
}

pub fn alg_to_json(a: &Alg) -> Value {
    match a {
        Alg::Dijkstra => json!({"type": "dijkstra"}),
        Alg::AStar(w) => json!({"type": "a*", "weight_factor": w}),
        Alg::SingleVia { k, under, sim, term } => json!({"type": "single_via", "k": k, "underlying": alg_to_json(under), "similarity": sim_to_json(sim), "termination": kterm_to_json(term)}),
        Alg::Yens { k, under, sim, term } => json!({"type": "yens", "k": k, "underlying": alg_to_json(under), "similarity": sim_to_json(sim), "termination": kterm_to_json(term)}),
    }
}
pub fn alg_from_json(v: &Value) -> Option<Alg> {
    match v["type"].as_str()? {
        "dijkstra" => Some(Alg::Dijkstra),
        "a*" => Some(Alg::AStar(v["weight_factor"].as_f64())),
        t @ ("single_via" | "yens") => {
            let k = v["k"].as_u64()? as usize;
            let under = Box::new(alg_from_json(&v["underlying"])?);
            let sim = sim_from_json(&v["similarity"])?;
            let term = kterm_from_json(&v["termination"])?;
            Some(if t == "single_via" { Alg::SingleVia { k, under, sim, term } } else { Alg::Yens { k, under, sim, term } })
        }
        _ => None,
    }
}

fn frontier_to_json(f: &FrontierCfg) -> Value {
    match f {
        FrontierCfg::None => json!({"type": "none"}),
        FrontierCfg::RoadClass { classes, mapping } => json!({"type": "road_class", "classes": classes, "mapping": mapping}),
        FrontierCfg::Vehicle { rows } => json!({"type": "vehicle", "rows": rows}),
        FrontierCfg::Turn { pairs } => json!({"type": "turn", "pairs": pairs}),
        FrontierCfg::Combined(v) => json!({"type": "combined", "models": v.iter().map(frontier_to_json).collect::<Vec<_>>()}),
    }
}
fn frontier_from_json(v: &Value) -> Option<FrontierCfg> {
    match v["type"].as_str()? {
        "none" => Some(FrontierCfg::None),
        "road_class" => Some(FrontierCfg::RoadClass {
            classes: v["classes"].as_array()?.iter().map(|c| c.as_u64().unwrap_or(0) as u8).collect(),
            mapping: v["mapping"].as_array()?.iter().filter_map(|m| Some((m[0].as_str()?.to_string(), m[1].as_u64()? as u8))).collect(),
        }),
        "vehicle" => Some(FrontierCfg::Vehicle {
            rows: v["rows"]
                .as_array()?
                .iter()
                .filter_map(|r| Some((r[0].as_u64()? as usize, r[1].as_str()?.to_string(), r[2].as_f64()?, r[3].as_str()?.to_string())))
                .collect(),
        }),
        "turn" => Some(FrontierCfg::Turn {
            pairs: v["pairs"].as_array()?.iter().filter_map(|p| Some((p[0].as_u64()? as usize, p[1].as_u64()? as usize))).collect(),
        }),
        "combined" => Some(FrontierCfg::Combined(v["models"].as_array()?.iter().filter_map(frontier_from_json).collect())),
        _ => None,
    }
}

fn term_to_json(t: &TermCfg) -> Value {
    match t {
        TermCfg::None => json!({"type": "none"}),
        TermCfg::Iterations(l) => json!({"type": "iterations", "limit": l}),
        TermCfg::SolutionSize(l) => json!({"type": "solution_size", "limit": l}),
        TermCfg::Runtime { limit_ms, frequency } => json!({"type": "runtime", "limit_ms": limit_ms, "frequency": frequency}),
        TermCfg::Combined(v) => json!({"type": "combined", "models": v.iter().map(term_to_json).collect::<Vec<_>>()}),
    }
}
fn term_from_json(v: &Value) -> Option<TermCfg> {
    match v["type"].as_str()? {
        "none" => Some(TermCfg::None),
        "iterations" => Some(TermCfg::Iterations(v["limit"].as_u64()?)),
        "solution_size" => Some(TermCfg::SolutionSize(v["limit"].as_u64()? as usize)),
        "runtime" => Some(TermCfg::Runtime { limit_ms: v["limit_ms"].as_u64()?, frequency: v["frequency"].as_u64()? }),
        "combined" => Some(TermCfg::Combined(v["models"].as_array()?.iter().filter_map(term_from_json).collect())),
        _ => None,
    }
}

pub fn world_to_json(w: &World) -> Value {
    json!({
        "net": w.net.to_json(),
        "traversal": match &w.trav {
            TravCfg::Distance { unit } => json!({"type": "distance", "unit": unit.to_string()}),
            TravCfg::Speed { speeds, speed_unit, dist_unit, time_unit } => json!({"type": "speed", "speeds": speeds, "speed_unit": speed_unit.to_string(), "dist_unit": dist_unit.to_string(), "time_unit": time_unit.to_string()}),
        },
        "state": {"dist_unit": w.state.dist_unit.to_string(), "dist_init": w.state.dist_init, "time_unit": w.state.time_unit.to_string(), "time_init": w.state.time_init},
        "access": match &w.access {
            AccessCfg::None => json!({"type": "none"}),
            AccessCfg::TurnDelay { headings, table, unit } => json!({"type": "turn_delay", "headings": headings, "table": table, "unit": unit.to_string()}),
        },
        "access_wrap": w.access_wrap,
        "cost": {
            "weights": w.cost.weights,
            "vehicle_rates": w.cost.vehicle_rates.iter().map(|(k, v)| json!([k, rate_to_json(v)])).collect::<Vec<_>>(),
            "edge_surcharge": w.cost.edge_surcharge.iter().map(|(k, t)| { let mut rows: Vec<(usize, f64)> = t.iter().map(|(e, c)| (*e, *c)).collect(); rows.sort_by_key(|r| r.0); json!([k, rows]) }).collect::<Vec<_>>(),
            "turn_surcharge": w.cost.turn_surcharge.iter().map(|(k, t)| { let mut rows: Vec<(usize, usize, f64)> = t.iter().map(|((a, b), c)| (*a, *b, *c)).collect(); rows.sort_by_key(|r| (r.0, r.1)); json!([k, rows]) }).collect::<Vec<_>>(),
            "aggregation": match w.cost.agg { CostAggregation::Sum => "sum", CostAggregation::Mul => "mul" },
        },
        "frontier": frontier_to_json(&w.frontier),
        "termination": term_to_json(&w.term),
    })
}

pub fn world_from_json(v: &Value) -> Option<World> {
    let net = RefNet::from_json(&v["net"])?;
    let t = &v["traversal"];
    let trav = match t["type"].as_str()? {
        "distance" => TravCfg::Distance { unit: du(t["unit"].as_str()?)? },
        "speed" => TravCfg::Speed {
            speeds: t["speeds"].as_array()?.iter().map(|x| x.as_f64().unwrap_or(1.0)).collect(),
            speed_unit: su(t["speed_unit"].as_str()?)?,
            dist_unit: du(t["dist_unit"].as_str()?)?,
            time_unit: tu(t["time_unit"].as_str()?)?,
        },
        _ => return None,
    };
    let s = &v["state"];
    let state = StateCfg {
        dist_unit: du(s["dist_unit"].as_str()?)?,
        dist_init: s["dist_init"].as_f64()?,
        time_unit: tu(s["time_unit"].as_str()?)?,
        time_init: s["time_init"].as_f64()?,
    };
    let a = &v["access"];
    let access = match a["type"].as_str()? {
        "none" => AccessCfg::None,
        "turn_delay" => {
            let headings = a["headings"].as_array()?.iter().map(|h| (h[0].as_i64().unwrap_or(0) as i16, h[1].as_i64().map(|x| x as i16))).collect();
            let mut table = [0.0; 8];
            for (i, x) in a["table"].as_array()?.iter().enumerate().take(8) {
                table[i] = x.as_f64().unwrap_or(0.0);
            }
            AccessCfg::TurnDelay { headings, table, unit: tu(a["unit"].as_str()?)? }
        }
        _ => return None,
    };
    let c = &v["cost"];
    let weights = c["weights"].as_array()?.iter().filter_map(|w| Some((w[0].as_str()?.to_string(), w[1].as_f64()?))).collect();
    let vehicle_rates = c["vehicle_rates"]
        .as_array()?
        .iter()
        .filter_map(|w| Some((w[0].as_str()?.to_string(), rate_from_json(&w[1])?)))
        .collect();
    let edge_surcharge = c["edge_surcharge"]
        .as_array()?
        .iter()
        .filter_map(|w| {
            let t: HashMap<usize, f64> = w[1].as_array()?.iter().filter_map(|r| Some((r[0].as_u64()? as usize, r[1].as_f64()?))).collect();
            Some((w[0].as_str()?.to_string(), t))
        })
        .collect();
    let turn_surcharge = c["turn_surcharge"]
        .as_array()?
        .iter()
        .filter_map(|w| {
            let t: HashMap<(usize, usize), f64> = w[1].as_array()?.iter().filter_map(|r| Some(((r[0].as_u64()? as usize, r[1].as_u64()? as usize), r[2].as_f64()?))).collect();
            Some((w[0].as_str()?.to_string(), t))
        })
        .collect();
    let agg = if c["aggregation"].as_str() == Some("mul") { CostAggregation::Mul } else { CostAggregation::Sum };
    Some(World {
        net,
        trav,
        state,
        access,
        access_wrap: v["access_wrap"].as_u64().unwrap_or(0) as u8,
        cost: CostCfg { weights, vehicle_rates, edge_surcharge, turn_surcharge, agg },
        frontier: frontier_from_json(&v["frontier"])?,
        term: term_from_json(&v["termination"])?,
    })
}

/// one fully specified core-level query: everything a monitor needs to re-run it
#[derive(Clone, Debug)]
pub struct QueryCase {
    pub world: World,
    pub cut: Vec<usize>,
    pub query: Value,
    pub alg: Alg,
    pub od: Od,
    pub reverse: bool,
    /// load the graph through the real file loader instead of building it in memory
    pub via_files: bool,
}

impl QueryCase {
    pub fn to_json(&self) -> Value {
        json!({
            "world": world_to_json(&self.world),
            "cut_edges": self.cut,
            "query": self.query,
            "algorithm": alg_to_json(&self.alg),
            "algorithm_name": self.alg.name(),
            "od": od_to_json(&self.od),
            "direction": if self.reverse { "reverse" } else { "forward" },
            "graph_via_files": self.via_files,
        })
    }
    pub fn from_json(v: &Value) -> Option<QueryCase> {
        Some(QueryCase {
            world: world_from_json(&v["world"])?,
            cut: v["cut_edges"].as_array().map(|a| a.iter().filter_map(|x| x.as_u64().map(|y| y as usize)).collect()).unwrap_or_default(),
            query: v.get("query").cloned().unwrap_or_else(|| json!({})),
            alg: alg_from_json(&v["algorithm"])?,
            od: od_from_json(&v["od"])?,
            reverse: v["direction"].as_str() == Some("reverse"),
            via_files: v["graph_via_files"].as_bool().unwrap_or(false),
        })
    }
}

impl QueryCase {
    /// build the repo's search instance for this case (graph, models, optional edge cut wrapper)
    pub fn build(&self) -> Result<routee_compass_core::algorithm::search::search_instance::SearchInstance, String> {
        use routee_compass_core::algorithm::search::util::edge_cut_frontier_model::EdgeCutFrontierModel;
        use routee_compass_core::model::network::EdgeId;
        let graph = crate::gen::net::graph_for(&self.world.net, self.via_files)?;
        let mut si = self.world.si(graph, &self.query)?;
        if !self.cut.is_empty() {
            let set: std::collections::HashSet<EdgeId> = self.cut.iter().map(|e| EdgeId(*e)).collect();
            si.frontier_model = std::sync::Arc::new(EdgeCutFrontierModel::new(si.frontier_model.clone(), set));
        }
        Ok(si)
    }
    pub fn k(&self) -> usize {
        match &self.alg {
            Alg::SingleVia { k, .. } | Alg::Yens { k, .. } => *k,
            _ => 1,
        }
    }
    pub fn orient(&self) -> &'static str {
        match self.od {
            Od::Vertex(..) => "vertex",
            Od::Edge(..) => "edge",
        }
    }
    pub fn dirn(&self) -> &'static str {
        if self.reverse { "reverse" } else { "forward" }
    }
}

/// directed cases committed under /verif/directed/<property>.json: {"cases": [{"signature":..., "case": {...}}]}
pub fn load_directed(root: &str, property: &str) -> Vec<(String, QueryCase)> {
    let path = format!("{root}/directed/{property}.json");
    let txt = match std::fs::read_to_string(&path) {
        Ok(t) => t,
        Err(_) => return vec![],
    };
    let v: Value = match serde_json::from_str(&txt) {
        Ok(v) => v,
        Err(_) => return vec![],
    };
    let mut out = vec![];
    if let Some(a) = v["cases"].as_array() {
        for c in a {
            if let Some(q) = QueryCase::from_json(&c["case"]) {
                out.push((c["signature"].as_str().unwrap_or("").to_string(), q));
            }
        }
    }
    out
}

#!/usr/bin/env python3
"""regenerates /verif/MANIFEST.json from the table below (keeps the manifest valid at all times)."""
import json, os, sys
ROOT = os.path.dirname(os.path.dirname(os.path.abspath(__file__)))

# id -> (built, technique, level text, level note, design ref)
CHECKS = {
 "C07": (True, "runtime oracle: real CostModel / EdgeTraversal on sampled configurations and state pairs vs independent closed formula; live relaxations watched through hooks in the search monitors",
         "Calls the real cost model (traversal/access/estimate) and EdgeTraversal::forward/reverse_traversal on sampled weight/rate/surcharge/aggregation setups and finite state pairs incl. zero and negative deltas; positivity, the sum formula, linearity in the weights and zero-weight neutrality are asserted per call.",
         "closed formula written in the harness; surcharges weighted by their feature weight; magnitudes bounded (|state|<=1e6)", "3.7"),
 "C09": (True, "runtime oracle over all unit pairs/triples (exhaustive pairs, sampled magnitudes) vs independent SI table",
         "Runs the real *Unit::convert and Time/Speed/Energy::create on every ordered unit pair and unit triple with sampled magnitudes; an independent SI table and algebraic identities decide. Exhaustive in the unit dimension, sampled in magnitude.",
         "trusts the SI factors written in the harness and f64 arithmetic; energy units only get identity/linearity/round-trip", "3.9"),
 "C11": (True, "model-based runtime monitor: random operation histories on the real container / StateModel vs insertion-ordered reference, full read API after every step",
         "Drives the real CompactOrderedHashMap and StateModel through sampled construction/extension/insert/overwrite histories and named get/set/add sequences; an insertion-ordered Vec reference and slot-isolation assertions decide after every step.",
         "reference map semantics (first position, last value); private IndexedEntry fields read via Debug", "3.11"),
 "C17": (True, "runtime oracle: real GridSearchPlugin and apply_input_plugins on sampled query/grid shapes vs nested-loop product (multiset comparison)",
         "Runs the real grid-search plugin, alone and through the application's plugin pipeline with flattening, on sampled queries; the multiset of generated queries is compared with an independent odometer product.",
         "canonical-JSON multiset comparison; object choices use axis-private keys", "3.17"),
 "C18": (True, "runtime oracle: real scc on all digraphs <=4 vertices + random/long graphs vs transitive-closure / Tarjan reference",
         "Executes the real component analysis on every digraph with <=4 vertices (thorough: also all loop-free 5-vertex digraphs) and on sampled larger graphs; a reference mutual-reachability partition decides.",
         "reference closure/Tarjan implementation in the harness; deep chains run with an enlarged stack", "3.18"),
}

NOT_YET = "monitor not built yet in this round of work (planned in DESIGN.md section 3); no claim is made"
ALL = ["C%02d" % i for i in range(1, 21)]

def main():
    checks = []
    na = []
    for pid in ALL:
        c = CHECKS.get(pid)
        if not c or not c[0]:
            na.append({"property_id": pid, "reason": NOT_YET})
            continue
        _, technique, text, note, ref = c
        checks.append({
            "property_id": pid,
            "quick_cmd": f"./check {pid} quick",
            "thorough_cmd": f"./check {pid} thorough",
            "evidence_file": f"/verif/evidence/{pid}.json",
            "replay_cmd_template": "cat {path}",
            "engine": "compass-verif",
            "level_claimed": {"category": "exploration", "text": text, "design_ref": f"DESIGN.md section {ref}"},
            "level_note": note,
            "technique": technique,
        })
    hooks_commits = []
    try:
        import subprocess
        out = subprocess.run(["git", "-C", "/repo", "log", "--format=%H %s"], capture_output=True, text=True).stdout
        for line in out.splitlines():
            h, _, s = line.partition(" ")
            if s.startswith("verif hooks"):
                hooks_commits.append(h)
    except Exception:
        pass
    m = {
        "version": 1,
        "setup_cmd": "cd /verif/harness && CARGO_NET_OFFLINE=true cargo build --release --offline --quiet",
        "hooks": {
            "guard": "cargo feature verif_hooks (routee-compass-core/verif_hooks, forwarded by routee-compass/verif_hooks); off by default",
            "enable": "the harness crate /verif/harness depends on /repo/rust/{routee-compass-core,routee-compass} by path with features=[\"verif_hooks\"]; every check runs cargo build --release --offline there",
            "baseline_off_cmd": "cd /repo/rust && cargo test --workspace --no-fail-fast --offline",
            "source_commits": list(reversed(hooks_commits)),
            "add_only": True,
        },
        "engines": [{
            "name": "compass-verif",
            "path": "/verif/harness",
            "serves_properties": [c["property_id"] for c in checks],
            "kind_free_text": "Rust harness: seeded workload generators, reference oracles and hook-event monitors run against the real crates (release profile); python driver ./check",
        }],
        "checks": checks,
        "notes": "runtime monitoring family. exit codes: 0 held on everything observed, 1 VIOLATION (new signature), 2 INCONCLUSIVE (never on the unchanged tree). known findings: /verif/known_findings.json",
        "not_applicable": na,
    }
    with open(os.path.join(ROOT, "MANIFEST.json"), "w") as f:
        json.dump(m, f, indent=1)
        f.write("\n")
    print(f"{len(checks)} checks, {len(na)} not claimed")

if __name__ == "__main__":
    main()

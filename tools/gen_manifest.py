#!/usr/bin/env python3
"""regenerates /verif/MANIFEST.json from the table below (keeps the manifest valid at all times)."""
import json, os, sys
ROOT = os.path.dirname(os.path.dirname(os.path.abspath(__file__)))

# id -> (built, technique, level text, level note, design ref)
CHECKS = {

 "C01": (True, "runtime oracle: real searches (all algorithms/orientations/directions) on generated networks; structural route/tree checker over the generator's edge list",
         "Runs the real SearchAlgorithm entry points on sampled networks and queries and checks every returned route (contiguity, endpoints, no repeated edge, non-empty) and every returned tree (edge joins parent to child in search direction, parents lead to the root without revisits) against the generator's own edge list.",
         "generator's RefNet is the source of truth; edge-oriented endpoint clause read in its weakest form; reverse x edge/ksp not driven (undefined in the code)", "3.1"),
 "C02": (True, "runtime oracle: real Dijkstra/A* vs reference Dijkstra over independently computed per-edge costs; pop-order invariant via hook events",
         "Runs real Dijkstra and A* (weight factor <= 1 on metric networks) on sampled networks, unit combinations, weights, rates and surcharges; the route cost must equal a reference shortest-path cost computed from the generator's own weights/rates, both algorithms must agree, and Dijkstra pops must be monotone (Pop hook events). One case in 80 goes through CompassApp::run: the objective sits in the TOML only, or a decoy objective sits in the TOML and the real one (weights / vehicle_rates / cost_aggregation, all or one, and a weight_factor correcting an inadmissible configured one) comes with the query; the same reference decides on the json route.",
         "per-edge state change measured by one real traverse_edge; state-dependent worlds skipped (precondition); 1e-9 tolerance; application slice: per-edge costs taken from the json route (route.cost of the summary is the un-weighted cost, a different quantity)", "3.2"),
 "C03": (True, "runtime oracle: every returned route re-accumulated from generator tables with an SI unit table (distance, time incl. turn delays, per-edge cost, monotonicity, initials)",
         "Every route returned by any algorithm on sampled networks/unit configurations/heading and delay tables is recomputed edge by edge from the generator's tables with independent SI factors and compared at 0.1 % (costs at 1e-9). One case in 40 goes through CompassApp::run with per-query state_features overrides (unit and initial value of distance / time): the response's per-edge result_state, its declared units and its traversal_summary are checked by the same oracle.",
         "SI table and independent turn classification in the harness; edge-oriented terminal edges may contribute nothing or their true traversal", "3.3"),
 "C04": (True, "runtime oracle: real frontier models built via their services; routes/trees compared with raw restriction inputs; Relax-after-FrontierReject hook invariant",
         "Runs searches under the real road-class, vehicle-restriction, turn-restriction, combined and edge-cut frontier models on sampled inputs; no route/tree edge may be forbidden by an independent evaluation of the raw inputs and no consecutive route edges may be a listed turn. One case in 40 goes through CompassApp::run with the restriction files read by the real builders from the [frontier] section and the parameters taken from the query.",
         "independent SI comparison with >=1 % margins; origin/destination edges of edge-oriented queries exempt", "3.4"),
 "C05": (True, "runtime oracle: real searches on disconnected/restricted networks vs BFS/Dijkstra reachability over permitted edges",
         "Runs Dijkstra/A* (any weight factor), both orientations and directions, with and without destination, on networks with several blocks and edge-local restrictions; Ok/NoPath must match reference reachability, destination-less trees must equal the reachable set with least-cost labels.",
         "reference BFS/Dijkstra in the harness; origin/destination edges drawn from the permitted set", "3.5"),

 "C06": (True, "history + reference-model monitor: batch responses as a multiset vs every query run alone, across parallelism/order/seeded delay injection at hook events; distinct completion orders recorded",
         "Builds applications from generated TOML, runs every query alone (parallelism 1) and then the same batch under random parallelism overrides, permutations and seeded yields/sleeps injected at QueryStart/QueryEnd/BeforeWrite hook events; the multiset of (qid, error text, route, cost, final state) must equal the alone results, counts must equal the expansion product, run() must return Ok and load balancing must partition the queries. An energy slice (30 % of the speed-table cases) shares a prediction cache between the queries; its reference is the same configuration without the cache. With a numeric load balancer, queries are run once more with another well-formed weight estimate: the answer must not depend on it.",
         "reference = same application (cache-enabled cases: the same configuration without the cache), query alone; schedule reach = native stress + delay injection (observed interleavings reported); thorough adds ThreadSanitizer and Miri layers", "3.6"),
 "C07": (True, "runtime oracle: real CostModel / EdgeTraversal on sampled configurations and state pairs vs independent closed formula; live relaxations watched through hooks in the search monitors",
         "Calls the real cost model (traversal/access/estimate) and EdgeTraversal::forward/reverse_traversal on sampled weight/rate/surcharge/aggregation setups and finite state pairs incl. zero and negative deltas; positivity, the sum formula, linearity in the weights and zero-weight neutrality are asserted per call.",
         "closed formula written in the harness; surcharges weighted by their feature weight; magnitudes bounded (|state|<=1e6)", "3.7"),

 "C08": (True, "runtime oracle: real energy traversal model (built through the real builder over the bundled models) on sampled edge sequences vs the monitor's own copy of the prediction model and exact charge arithmetic",
         "Builds energy traversal models through the real JSON builder for ICE/BEV/PHEV over the bundled models in every unit configuration, drives sampled edge sequences that clamp the battery and switch PHEV modes, and checks per edge energy (rate band x adjustment x length), single energy source, charge arithmetic and range, the best-case estimate and starting-charge validation.",
         "monitor's copy of the same model is ground truth for the rate; 0.1 % speed band because speed is reconstructed through the unit table", "3.8"),
 "C09": (True, "runtime oracle over all unit pairs/triples (exhaustive pairs, sampled magnitudes) vs independent SI table",
         "Runs the real *Unit::convert and Time/Speed/Energy::create on every ordered unit pair and unit triple with sampled magnitudes; an independent SI table and algebraic identities decide. Exhaustive in the unit dimension, sampled in magnitude.",
         "trusts the SI factors written in the harness and f64 arithmetic; energy units only get identity/linearity/round-trip", "3.9"),

 "C10": (True, "runtime monitor over hook events (LoopTop/Pop/SearchEnd): limit sweeps per query vs unlimited reference run; one-sided timing checks for runtime limits",
         "For sampled queries the unlimited run is compared with complete sweeps of the iteration and solution-size limits, random combined limits and runtime budgets (zero, and expiring mid-search with a sleeping traversal model): expansion counts, tree sizes, termination messages, identity of results, monotonicity and no work after termination are asserted from hook events. Yen's algorithm is driven under every limit as well, and an application slice takes the limits from the [termination] section of the TOML and the verdicts from the responses (unlimited route or a 'terminated' error naming the limit). A configured-limit slice builds random [termination] sections (runtime budgets up to days) through the real builder and probes the model with back-dated start instants against the generator's own reading of the section.",
         "expansion = popped vertex; runtime checks one-sided (250 ms slack) so load cannot alarm", "3.10"),
 "C11": (True, "model-based runtime monitor: random operation histories on the real container / StateModel vs insertion-ordered reference, full read API after every step",
         "Drives the real CompactOrderedHashMap and StateModel through sampled construction/extension/insert/overwrite histories and named get/set/add sequences; an insertion-ordered Vec reference and slot-isolation assertions decide after every step.",
         "reference map semantics (first position, last value); private IndexedEntry fields read via Debug", "3.11"),


 "C12": (True, "fault-input monitor in subprocesses: structurally mutated batches under RLIMIT_AS with per-query logical step budgets enforced through hook events; panic / death / Err / unanswered / non-error checks",
         "Worker subprocesses (6 GiB address-space cap) build applications over plugin/algorithm/traversal/output configurations and run empty, single and mutated batches (25 mutation classes, several with sub-variants); a panic, a process death, an exceeded step budget, an Err from run(), an unanswered query, a response without request, or an ill-formed query answered without error is a violation; untouched valid queries must be answered as when alone. The thorough tier repeats a reduced workload with a debug-profile build (overflow checks, debug assertions, debug-only diagnostics) including a run with the diagnostics directory made unusable.",
         "worker stall >5 min is inconclusive, never a violation; 'must error' asserted only for unambiguous mutations", "3.12"),
 "C13": (True, "runtime oracle under logical loop budgets (KspOuter/KspInner hook events): count, optimality, validity, distinctness, similarity, accept-all comparison, reachability",
         "Runs both k-shortest-path algorithms on sampled networks and configurations under logical step budgets; route count, first-route optimality, walk/loop/accumulation validity, pairwise distinctness and similarity, accept-all >= threshold counts, and error-vs-reachability are asserted per call. A quarter of the worlds charge turn delays (first-route optimality is not decided there, accumulation of every alternative is).",
         "budgets 4-8x the legitimate loop bounds; optimality only for admissible underlying searches", "3.13"),


 "C14": (True, "runtime oracle: real interpolated speed/grade models over the bundled random forests vs the underlying model evaluated at the grid points; generic interpolators vs multilinear functions and each other",
         "Builds the real interpolated model over all four bundled models on sampled grids, with the declared speed / grade / energy-rate units of the model file drawn at random, and queries it at interior, grid, boundary, +-ulp and outside points in all input units; values must lie within the surrounding underlying-model values, equal them at grid points, be continuous across borders and clamp outside. Generic 1/2/3/N-D interpolators must reproduce multilinear functions, agree with each other and reject outside points.",
         "grid axes from the repo's linspace; underlying smartcore model is ground truth", "3.14"),
 "C15": (True, "runtime oracle: generated CSV file sets loaded by the real Graph::from_files / CompassApp::try_from and read back through every accessor vs the generator's lists; per-edge tables checked behaviourally",
         "Writes sampled edge/vertex file sets (plain/gzip, column layouts, counts explicit/scanned), loads them through the real loaders and compares every accessor (edges, adjacency in both views at every degree, triplets, coordinates, bindings) with the generator's lists; speed/heading/road-class rows are checked through the models the application builds from them.",
         "ids equal row indices; gzip files named .gz", "3.15"),
 "C16": (True, "runtime oracle: real vertex and edge r-tree plugins on generated candidate sets vs exhaustive scan under the plugin's measure and independent f64 haversine for tolerances",
         "Runs the real RTreePlugin and EdgeRtreeInputPlugin built from generated files on sampled coordinates, tolerance placements/units and road-class/vehicle filters; the match must equal an exhaustive scan over admissible candidates, tolerance verdicts must agree with an independent haversine outside a 1 % + 3 m band, and all other query fields must be untouched.",
         "geo's Centroid trusted; don't-care band around the tolerance", "3.16"),
 "C17": (True, "runtime oracle: real GridSearchPlugin and apply_input_plugins on sampled query/grid shapes vs nested-loop product (multiset comparison)",
         "Runs the real grid-search plugin, alone and through the application's plugin pipeline with flattening, on sampled queries; the multiset of generated queries is compared with an independent odometer product.",
         "canonical-JSON multiset comparison; object choices use axis-private keys", "3.17"),
 "C18": (True, "runtime oracle: real scc on all digraphs <=4 vertices + random/long graphs vs transitive-closure / Tarjan reference",
         "Executes the real component analysis on every digraph with <=4 vertices (thorough: also all loop-free 5-vertex digraphs) and on sampled larger graphs; a reference mutual-reachability partition decides.",
         "reference closure/Tarjan implementation in the harness; deep chains run with an enlarged stack", "3.18"),


 "C19": (True, "offline checker over the output file (history): file parsed by serde_json / csv vs the same batch run without a sink, across parallelism, flush rates, appending runs and delay injection; writer switches recorded from SinkLocked events",
         "Runs batches through applications with NDJSON or CSV file sinks (random mappings, sorted/unsorted headers, flush rates, both persistence policies, combined sinks, per-run policies, 1..3 appending runs, a further appending run by a second application through the command-line runner on JSON-array or chunked newline-delimited query files, large records) under shuffled order, parallelism 1..32 and seeded delays; the parsed file must be a bijection with the responses that reach the sink, cells must equal the mapping applied to the response, and the returned responses must keep every field of the sink-less run.",
         "reference = same batch without sink; numbers compared at 1e-12 (text round trip); lock discipline is evidence only; thorough adds ThreadSanitizer and Miri layers", "3.19"),
 "C20": (True, "runtime oracle: real search results rendered by the real TraversalPlugin (5 formats x route/tree), Summary and UUID plugins and CompassApp::run; WKT/WKB decoded and compared with the generator's geometry table",
         "Real routes and trees are rendered in all five formats by the real output plugins and by the application; each rendering is decoded and compared with the SearchAppResult it was given and with the generator's geometry/identifier tables, including truncated geometry tables that must produce errors.",
         "wkt/wkb/serde_json crates used as decoders; state vector slot order normalised when comparing two builds", "3.20"),
}

SHIPPED = ["C01", "C02", "C03", "C05", "C06", "C08", "C15", "C16", "C17", "C20"]
EXTRA = {
 "C10": " One query in five of the limit sweep is edge-oriented.",
 "C11": " One case in 2000 builds an application from generated TOML and checks the state model of SearchApp::build_search_instance under per-query state_features overrides (slots, initial values in the query's units, named updates).",
 "C13": " One world in five restricts edges (road classes, vehicle restrictions, combined): reachability and least cost are judged on the permitted edges and every returned route must keep to them.",
}
NOT_YET = "monitor not built yet in this round of work (planned in DESIGN.md section 3); no claim is made"
ALL = ["C%02d" % i for i in range(1, 21)]

def main():
    checks = []
    na = []
    for pid in ALL:
        c = CHECKS.get(pid)
        if not c or not c[0]:
            na.append({"property_id": pid, "reason": NOT_YET})
            continue
        _, technique, text, note, ref = c
        if pid in SHIPPED:
            text += " A shipped-configuration slice drives the repository's own example network (downtown Denver, gzip tables) under the shipped osm_default_*.toml files exactly as a user gets them and applies this property's clauses to the responses against the monitor's own reading of the files (DESIGN.md section 7)."
            technique += "; the same oracle over the repository's shipped example network and configurations"
        text += EXTRA.get(pid, "")
        checks.append({
            "property_id": pid,
            "quick_cmd": f"./check {pid} quick",
            "thorough_cmd": f"./check {pid} thorough",
            "evidence_file": f"/verif/evidence/{pid}.json",
            "replay_cmd_template": f"./check {pid} --replay {{path}}",
            "engine": "compass-verif",
            "level_claimed": {"category": "exploration", "text": text, "design_ref": f"DESIGN.md section {ref}"},
            "level_note": note,
            "technique": technique,
        })
    hooks_commits = []
    try:
        import subprocess
        out = subprocess.run(["git", "-C", "/repo", "log", "--format=%H %s"], capture_output=True, text=True).stdout
        for line in out.splitlines():
            h, _, s = line.partition(" ")
            if s.startswith("verif hooks"):
                hooks_commits.append(h)
    except Exception:
        pass
    m = {
        "version": 1,
        "setup_cmd": "cd /verif/harness && CARGO_NET_OFFLINE=true cargo build --release --offline --quiet",
        "hooks": {
            "guard": "cargo feature verif_hooks (routee-compass-core/verif_hooks, forwarded by routee-compass/verif_hooks); off by default",
            "enable": "the harness crate /verif/harness depends on /repo/rust/{routee-compass-core,routee-compass} by path with features=[\"verif_hooks\"]; every check runs cargo build --release --offline there",
            "baseline_off_cmd": "cd /repo/rust && cargo test --workspace --no-fail-fast --offline",
            "source_commits": list(reversed(hooks_commits)),
            "add_only": True,
        },
        "engines": [{
            "name": "compass-verif",
            "path": "/verif/harness",
            "serves_properties": [c["property_id"] for c in checks],
            "kind_free_text": "Rust harness: seeded workload generators, reference oracles and hook-event monitors run against the real crates (release profile); python driver ./check",
        }],
        "checks": checks,
        "notes": "runtime monitoring family. exit codes: 0 held on everything observed, 1 VIOLATION (new signature), 2 INCONCLUSIVE (never on the unchanged tree). known findings: /verif/known_findings.json",
        "not_applicable": na,
    }
    with open(os.path.join(ROOT, "MANIFEST.json"), "w") as f:
        json.dump(m, f, indent=1)
        f.write("\n")
    print(f"{len(checks)} checks, {len(na)} not claimed")

if __name__ == "__main__":
    main()

#!/bin/bash
# for every fix: commit, re-introduce the defect (reverse patch) in /repo's working tree, run the named
# checks, and restore the tree. prints which checks fire. usage: reverse_fix_check.sh [commit-prefix ...]
set -u
export VERIF_DEBUG_LAYER=1   # C12 also runs its debug-profile layer (thorough-tier layer) here
cd /repo
declare -A PROPS=(
 [b7c1d78]="C11" [a61ddec]="C07" [09f5995]="C07" [4f2ca0c]="C01" [5b41425]="C03" [5693425]="C13"
 [933faa5]="C16" [2a5a0d8]="C06 C12" [fcc663a]="C06 C12" [6fc4cbb]="C19" [fddc6bd]="C12" [72bbdc6]="C12"
 [4db78fb]="C12" [f40ecd0]="C19" [30335e9]="C08" [4aa31be]="C19" [3c1c05e]="C12"
)
V=$(git log --format='%h %s' | grep "search from a vertex that is not in the graph" | cut -d' ' -f1)
PROPS[$V]="C12"
LIST="${@:-${!PROPS[@]}}"
rm -rf /verif/.work/evidence.keep && cp -r /verif/evidence /verif/.work/evidence.keep
for c in $LIST; do
  git checkout -q -- . 2>/dev/null
  if ! git show $c | git apply -R 2>/dev/null; then echo "$c: reverse patch does not apply cleanly"; continue; fi
  for p in ${PROPS[$c]}; do
    out=$(cd /verif && ./check $p quick 2>&1)
    rc=$?
    nsig=$(echo "$out" | grep -c "^VIOLATION")
    echo "$c ($(git log --format=%s -1 $c | cut -c1-60)) -> $p exit=$rc violations=$nsig $(echo "$out" | grep signature | head -2 | tr '\n' ' ' | cut -c1-200)"
  done
  git checkout -q -- .
done
rm -rf /verif/evidence && mv /verif/.work/evidence.keep /verif/evidence
git status --short | head

#!/bin/bash
# apply a seeded change to /repo, run the named checks, undo it. usage: try_mutant.sh <patch> <tier> <Cxx> [Cxx ...]
set -u
P=$1; TIER=$2; shift 2
# whatever happens (a closed pipe on stdout included), /repo and the evidence of the unchanged tree are restored
trap '' PIPE
restore() {
  git -C /repo checkout -q -- .
  if [ -d /verif/.work/evidence.keep ]; then rm -rf /verif/evidence && mv /verif/.work/evidence.keep /verif/evidence; fi
}
trap restore EXIT
cd /repo && git checkout -q -- . && git apply $P || { echo "patch does not apply"; exit 2; }
# evidence written while the change is applied must not replace the evidence of the unchanged tree
rm -rf /verif/.work/evidence.keep && cp -r /verif/evidence /verif/.work/evidence.keep
for p in "$@"; do
  out=$(cd /verif && ./check $p $TIER 2>&1); rc=$?
  echo "$p $TIER exit=$rc new_signatures: $(echo "$out" | grep -A1 '^VIOLATION' | grep signature | sed 's/  signature: //' | tr '\n' ';' | cut -c1-400)"
  echo "   $(echo "$out" | grep -E 'HELD|VIOLATED|INCONCLUSIVE' | tail -1)"
done
restore
git -C /repo status --short | head -3 || true

#!/usr/bin/env python3
"""keep a confirmed seeded change: keep_meta.py <name> <property> <change> <needs> <caught_by as 'Cxx=text;Cyy=text'> [missed_by] [strengthening]
copies the deliverables out of /tmp/mut_<name> (tools/keep_mutant.sh), writes meta.json, removes the worktree."""
import json, subprocess, sys, re
name, prop, change, needs, caught = sys.argv[1:6]
missed = sys.argv[6] if len(sys.argv) > 6 else ""
strength = sys.argv[7] if len(sys.argv) > 7 else ""
log = open("/verif/.work/mutants.log").read().split("=== " + name + "\n")[-1].split("=== ")[0]
a = re.search(r"\(a\) suite with change: (.*)", log).group(1).strip()
b = "FAILED" if "FAILED" in re.search(r"\(b\) demo with change: (.*)", log).group(1) else "ok"
c = "ok" if "test result: ok" in re.search(r"\(c\) demo without change: (.*)", log).group(1) else "FAILED"
crate = re.search(r"crate=(\S+)", log).group(1)
assert a.startswith("83 passed 0 failed") and b == "FAILED" and c == "ok", (a, b, c)
subprocess.check_call(["/verif/tools/keep_mutant.sh", name, "/tmp/mut_" + name])
meta = {"property": prop, "demo_crate": crate, "change": change, "needs": needs,
        "caught_by": dict(x.split("=", 1) for x in caught.split(";") if x)}
if missed:
    meta["missed_by_before_strengthening"] = [x.strip() for x in missed.split(",")]
    meta["strengthening"] = strength
meta.update({"files": {"patch": "patch.diff", "demonstration": f"mutant_demo.rs (goes in rust/{crate}/tests/)", "author_notes": "agent_notes.md"},
  "confirmed": {"how": "tools/confirm_mutant.sh <scratch worktree>: (a) cargo test --workspace --offline with the change, (b) cargo test -p %s --test mutant_demo with it, (c) the same without it" % crate,
                "suite_with_change": a, "demo_with_change": b, "demo_without_change": c},
  "checked_with": f"tools/try_mutant.sh /verif/seeded/{name}/patch.diff quick <checks>"})
json.dump(meta, open(f"/verif/seeded/{name}/meta.json", "w"), indent=1)
print("kept", name)

#!/bin/bash
# confirm a sub-agent's seeded change in its scratch worktree, then run the named quick checks against it in /repo.
# usage: process_mutant.sh <name> <Cxx> [Cxx ...]     (worktree is /tmp/mut_<name>); output is appended to .work/mutants.log
N=$1; shift
W=/tmp/mut_$N
{
echo "=== $N"
/verif/tools/confirm_mutant.sh $W 2>&1 | tail -4
/verif/tools/try_mutant.sh $W/_mutant/patch.diff quick "$@" 2>&1
} | tee -a /verif/.work/mutants.log

#!/bin/bash
# keep a confirmed seeded change: copy deliverables from the scratch worktree into /verif/seeded/<name>/ and remove the worktree
# usage: keep_mutant.sh <name> <worktree>
set -u
N=$1; W=$2
mkdir -p /verif/seeded/$N
cp $W/_mutant/patch.diff $W/_mutant/mutant_demo.rs /verif/seeded/$N/
cp $W/_mutant/README.md /verif/seeded/$N/agent_notes.md
(cd $W/rust; ls */tests/mutant_demo.rs) > /verif/seeded/$N/.demo_location
git -C /repo worktree remove --force $W; rm -rf $W; git -C /repo worktree prune
cat /verif/seeded/$N/.demo_location

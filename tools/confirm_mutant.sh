#!/bin/bash
# confirm a sub-agent's seeded change in its scratch worktree: (a) existing suite passes with the change,
# (b) the demonstration fails with it, (c) the demonstration passes without it. usage: confirm_mutant.sh <worktree> 
set -u
W=$1
cd $W/rust || exit 2
DEMO=$(ls */tests/mutant_demo.rs 2>/dev/null | head -1)
[ -z "$DEMO" ] && { echo "no demo found"; exit 2; }
CRATE=$(dirname $(dirname $DEMO))
P=$W/_mutant/patch.diff
# make sure the patch is applied
git -C $W apply --check -R $P 2>/dev/null || git -C $W apply $P
mv $DEMO /tmp/demo_$$.rs
A=$(cargo test --workspace --offline 2>&1 | grep -E "^test result" | awk '{p+=$4; f+=$6} END {print p" passed "f" failed"}')
mv /tmp/demo_$$.rs $DEMO
B=$(cargo test -p $CRATE --test mutant_demo --offline 2>&1 | grep -E "^test result" | tail -1)
git -C $W apply -R $P
C=$(cargo test -p $CRATE --test mutant_demo --offline 2>&1 | grep -E "^test result" | tail -1)
git -C $W apply $P
echo "crate=$CRATE"
echo "(a) suite with change: $A"
echo "(b) demo with change: $B"
echo "(c) demo without change: $C"

#!/usr/bin/env python3
"""regenerates the table of seeded changes in DESIGN.md (between the seeded-table markers) from seeded/*/meta.json"""
import glob, json, os, re
rows = []
for f in sorted(glob.glob("/verif/seeded/*/meta.json")):
    m = json.load(open(f))
    name = os.path.basename(os.path.dirname(f))
    caught = "; ".join(f"**{k}**: {v}" for k, v in m.get("caught_by", {}).items())
    missed = ", ".join(m.get("missed_by_before_strengthening") or []) or "—"
    st = m.get("strengthening") or "—"
    esc = lambda t: t.replace("|", "\\|")
    rows.append(f"| `{name}` ({m['property']}) | {esc(m['change'])} | {esc(caught)} | {esc(missed)} | {esc(st)} |")
table = "| seeded change | what it does | reported by | first missed by | strengthening |\n|---|---|---|---|---|\n" + "\n".join(rows)
p = "/verif/DESIGN.md"
s = open(p).read()
block = "<!-- seeded-table:begin -->\n" + table + "\n<!-- seeded-table:end -->"
if "SEEDED_TABLE" in s:
    s = s.replace("SEEDED_TABLE", block)
else:
    s = re.sub(r"<!-- seeded-table:begin -->.*?<!-- seeded-table:end -->", lambda _: block, s, flags=re.S)
open(p, "w").write(s)
print(len(rows), "rows")

#!/usr/bin/env python3
"""collect, per violation signature of a property, the smallest replayable witness over several seeds and
store it under /verif/directed/<property>.json (committed; run first by the monitor on every invocation).
usage: make_directed.py <Cxx> <sig-substring>[,<sig-substring>...] [seeds]"""
import glob, json, os, subprocess, sys
ROOT = os.path.dirname(os.path.dirname(os.path.abspath(__file__)))
BIN = os.path.join(ROOT, "harness/target/release/verif")
prop = sys.argv[1]
wanted = sys.argv[2].split(",")
seeds = int(sys.argv[3]) if len(sys.argv) > 3 else 10
for f in glob.glob(os.path.join(ROOT, "replay", prop + "-*.json")):
    os.remove(f)
for s in range(1, seeds + 1):
    subprocess.run([BIN, prop, "--seed", str(s), "--root", ROOT], stdout=subprocess.DEVNULL)
best = {}
for f in glob.glob(os.path.join(ROOT, "replay", prop + "-*.json")):
    d = json.load(open(f))
    sig = d["signature"]
    if not any(w in sig for w in wanted):
        continue
    r = d["replay"]
    try:
        size = len(r["world"]["net"]["edges"])
    except Exception:
        continue
    # must reproduce on its own with the same signature
    out = subprocess.run([BIN, prop, "--replay", f, "--root", ROOT], capture_output=True, text=True).stdout
    if ("signature: " + sig) not in out:
        continue
    if sig not in best or size < best[sig][0]:
        best[sig] = (size, r, d["message"])
path = os.path.join(ROOT, "directed", prop + ".json")
existing = {"cases": []}
if os.path.exists(path):
    existing = json.load(open(path))
keep = [c for c in existing["cases"] if c["signature"] not in best]
for sig, (size, r, msg) in sorted(best.items()):
    r.pop("allowed_edges_oracle", None)
    keep.append({"signature": sig, "observed": msg, "case": r})
    print(f"{sig}: {size} edges")
json.dump({"comment": "deterministic inputs run first by the monitor on every invocation: witnesses of the findings listed in known_findings.json (and regressions of fixed ones)", "cases": keep}, open(path, "w"), indent=1)
missing = [w for w in wanted if not any(w in s for s in best)]
if missing:
    print("NOT FOUND:", missing)

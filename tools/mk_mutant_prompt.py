#!/usr/bin/env python3
"""writes the sub-agent prompt for a seeded-change request: mk_mutant_prompt.py <Cxx> [suffix] -> /tmp/prompt_<Cxx><suffix>.txt
the prompt holds only the property's text and the scratch worktree path (nothing from /verif)."""
import json, sys
pid = sys.argv[1]
suffix = sys.argv[2] if len(sys.argv) > 2 else ""
extra = sys.argv[3] if len(sys.argv) > 3 else ""
props = [json.loads(l) for l in open("/verif/properties.jsonl") if l.strip()]
p = next(x for x in props if x["id"] == pid)
tpl = open("/tmp/prompt_C01.txt").read() if False else None
W = f"/tmp/mut_{pid}{suffix}"
text = f"""You are working in a scratch git worktree of the NREL/routee-compass repository at {W} (a Rust workspace lives under {W}/rust). Work ONLY inside {W}. Never read, write or run anything under /repo or /verif (they are off limits), and do not look for other copies of verification tooling on this machine. The machine is offline: always pass --offline to cargo (e.g. `cd {W}/rust && cargo test --workspace --offline`). The first build takes a few minutes; give long-running commands a generous timeout.

Here is a semantic property of this codebase that is supposed to hold (JSON record):

{json.dumps(p, indent=1)}

YOUR TASK: design ONE realistic code change (the kind of bug a developer could plausibly introduce or leave behind: an off-by-one, a wrong comparison operator, swapped arguments, a missed case, reordered statements, a dropped check, a stale value reused, a unit mixed up ...) to the NON-TEST source code under {W}/rust that BREAKS this property, such that:
 (1) the workspace still compiles;
 (2) the existing test suite, unedited, still passes: `cd {W}/rust && cargo test --workspace --offline` (80 unit tests + 3 doc tests pass on the unmodified tree);
 (3) the breakage needs something SPECIFIC to manifest - a particular kind of input, a multi-step sequence of operations, an unusual configuration or parameter combination, a particular size/shape, a particular thread schedule, or two cooperating code sites that each look fine alone. It must NOT be something that ordinary use exposes at once (e.g. do not break every search, every conversion, every query).
Constraints: do not modify or delete existing tests; do not touch code guarded by the cargo feature `verif_hooks` nor the file rust/routee-compass-core/src/verif.rs; do not add dependencies; keep the change small (a few lines, at most two sites).{extra}

DELIVERABLES, all under {W}/_mutant/ (create it):
 - patch.diff : `git diff` of the source change ONLY (not the demonstration).
 - a demonstration: a NEW integration-test file (e.g. {W}/rust/<crate>/tests/mutant_demo.rs, also copied to {W}/_mutant/mutant_demo.rs) using only the crates' public API, that FAILS with your change applied and PASSES on the unmodified code. State which crate's tests/ directory it belongs in.
 - README.md : what the change is, why it breaks the property, exactly which conditions are needed for it to manifest, and the exact commands you ran with their outcomes.
You must actually verify all three facts by running the commands: (a) full existing suite passes with the change; (b) the demonstration fails with the change; (c) the demonstration passes without the change (use `git stash` / `git stash pop` or `git apply -R` on patch.diff to switch). When finished, leave the worktree with the source change APPLIED (uncommitted) and the demonstration file present, and reply with a 5-10 line summary: the change, the trigger conditions, and the verification results.
"""
open(f"/tmp/prompt_{pid}{suffix}.txt", "w").write(text)
print(f"/tmp/prompt_{pid}{suffix}.txt")

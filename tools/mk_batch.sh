#!/bin/bash
# creates scratch worktrees /tmp/mut_<Cxx><suffix> and sub-agent prompts (tools/mk_mutant_prompt.py) that list, per property,
# the ideas already used by kept seeded changes (their one-line descriptions only; nothing about the checks)
# usage: mkbatch.sh C06:m C13:k ...
for spec in "$@"; do
  p=${spec%%:*}; s=${spec##*:}
  W=/tmp/mut_${p}${s}
  git -C /repo worktree add --detach $W HEAD >/dev/null 2>&1
  used=$(python3 - <<PY
import json,glob
out=[]
for d in sorted(glob.glob('/verif/seeded/${p}*/meta.json')):
    m=json.load(open(d)); out.append(m['change'][:170].replace('\n',' '))
print(' | '.join(out))
PY
)
  extra=" Prefer a change whose effect needs a multi-step sequence, an unusual configuration shape, a particular size, or (where threads are involved) a particular interleaving. Ideas ALREADY USED by earlier changes - do not repeat these or close variants, look at other code that the property depends on: ${used}"
  python3 tools/mk_mutant_prompt.py $p $s "$extra"
done

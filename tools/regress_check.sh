#!/bin/bash
# re-introduce each repaired Yen defect (hand-written against the repaired code, /verif/seeded/regress/*.diff) and
# run the checks that should notice. usage: regress_check.sh [tier]
set -u
TIER=${1:-quick}
declare -A CHECKS=(
 [yens-hang-when-no-candidate]="C13 C12"
 [yens-accepted-route-stays-candidate]="C13"
 [yens-similar-to-any-instead-of-all]="C13"
 [yens-spur-no-path-fails-query]="C13 C05"
 [yens-root-vertices-not-cut]="C13 C01"
 [yens-spur-state-not-retraversed]="C13 C03"
 [yens-candidates-forgotten]="C13"
 [c19-lock-released-before-newline]="C19"
 [c10-runtime-limit-stops-at-half-budget]="C10"
 [c14-linspace-step-divides-by-n]="C14"
)
for n in "${!CHECKS[@]}"; do
  /verif/tools/try_mutant.sh /verif/seeded/regress/$n.diff $TIER ${CHECKS[$n]} 2>&1 | sed "s/^/$n: /" | grep -v "^$n:    "
done

//! narrow concurrent core of CompassApp::run for Miri (data-race detection + seeded schedules):
//! the real file ResponseSink, the real FloatCachePolicy (check-then-act as PredictionModelRecord does)
//! and the real load balancer, driven by a few threads. the oracle is the same as in the native
//! monitors: the file holds exactly one intact record per response; cached values are the computed ones;
//! the balancer partitions the queries. prints one line `ORDER <write order>` per run for the evidence.
use routee_compass::app::compass::compass_app_ops::apply_load_balancing_policy;
use routee_compass::app::compass::response::response_output_format::ResponseOutputFormat;
use routee_compass::app::compass::response::response_output_policy::ResponseOutputPolicy;
use routee_compass_core::util::cache_policy::float_cache_policy::{FloatCachePolicy, FloatCachePolicyConfig};
use serde_json::{json, Value};
use std::sync::Arc;

fn model(speed: f64, grade: f64) -> f64 {
    speed * 0.01 + grade * 3.0 + 0.25
}

fn main() {
    let args: Vec<String> = std::env::args().collect();
    let csv = args.get(1).map(|s| s == "csv").unwrap_or(false);
    let dir = args.get(2).cloned().unwrap_or_else(|| "/tmp".to_string());
    let nthreads = 3usize;
    let per_thread = 3usize;
    // runs with different Miri seeds may execute concurrently: unique file per run
    let nanos = std::time::SystemTime::now().duration_since(std::time::UNIX_EPOCH).map(|d| d.as_nanos()).unwrap_or(0);
    let file = format!("{dir}/miri-sink-{}-{nanos}.out", if csv { "csv" } else { "ndjson" });
    let _ = std::fs::remove_file(&file);
    let format: ResponseOutputFormat = if csv {
        serde_json::from_value(json!({"type": "csv", "sorted": true, "mapping": {"qid": "request.qid", "value": {"optional": "value"}, "payload": "payload"}})).expect("csv format")
    } else {
        ResponseOutputFormat::Json { newline_delimited: true }
    };
    let policy = ResponseOutputPolicy::File { filename: file.clone(), format, file_flush_rate: Some(2) };
    let sink = Arc::new(policy.build().expect("sink"));
    let cache = Arc::new(FloatCachePolicy::from_config(FloatCachePolicyConfig { cache_size: 4, key_precisions: vec![1, 2] }).expect("cache"));
    // load balancer on the main thread
    let queries: Vec<Value> = (0..7).map(|i| json!({"i": i, "query_weight_estimate": (i % 3) as f64})).collect();
    let bins = apply_load_balancing_policy(&queries, nthreads, 1.0).expect("balance");
    let mut placed: Vec<u64> = bins.iter().flatten().map(|q| q["i"].as_u64().unwrap()).collect();
    placed.sort();
    assert_eq!(placed, (0..7).collect::<Vec<u64>>(), "VIOLATION load balancer lost or duplicated a query");
    assert_eq!(bins.len(), nthreads, "VIOLATION load balancer bin count");
    let handles: Vec<_> = (0..nthreads)
        .map(|t| {
            let sink = sink.clone();
            let cache = cache.clone();
            std::thread::spawn(move || {
                let mut returned = vec![];
                for j in 0..per_thread {
                    // check-then-act on the shared cache, keys shared between threads
                    let key = [10.0 + (j % 2) as f64, 0.01 * ((t + j) % 2) as f64];
                    let v = match cache.get(&key).expect("cache get") {
                        Some(v) => v,
                        None => {
                            let v = model(key[0], key[1]);
                            cache.update(&key, v).expect("cache update");
                            v
                        }
                    };
                    assert_eq!(v, model(key[0], key[1]), "VIOLATION cached value differs from the computed one");
                    let payload: String = std::iter::repeat(char::from(b'a' + (t as u8))).take(40 + 30 * j).collect();
                    let mut response = json!({"request": {"qid": format!("t{t}j{j}")}, "value": v, "payload": payload});
                    let before = response.clone();
                    sink.write_response(&mut response).expect("write");
                    assert_eq!(response, before, "VIOLATION the sink changed the response handed back");
                    returned.push(response);
                }
                returned
            })
        })
        .collect();
    let mut all: Vec<Value> = vec![];
    for h in handles {
        all.extend(h.join().expect("join"));
    }
    let text = std::fs::read_to_string(&file).expect("read file");
    let mut lines: Vec<&str> = text.lines().collect();
    if csv {
        assert_eq!(lines.first().copied(), Some("payload,qid,value"), "VIOLATION csv header");
        lines.remove(0);
    }
    assert_eq!(lines.len(), all.len(), "VIOLATION {} records for {} responses", lines.len(), all.len());
    let mut order = vec![];
    let mut seen = std::collections::BTreeSet::new();
    for l in &lines {
        let qid = if csv {
            let cells: Vec<&str> = l.split(',').collect();
            assert_eq!(cells.len(), 3, "VIOLATION csv row width: {l}");
            let qid = cells[1].trim_matches('"').to_string();
            let r = all.iter().find(|r| r["request"]["qid"] == qid.as_str()).unwrap_or_else(|| panic!("VIOLATION row for unknown qid {qid}"));
            assert_eq!(cells[0].trim_matches('"'), r["payload"].as_str().unwrap(), "VIOLATION csv payload cell torn or interleaved");
            qid
        } else {
            let v: Value = serde_json::from_str(l).unwrap_or_else(|e| panic!("VIOLATION line does not parse ({e}): {l}"));
            assert!(all.contains(&v), "VIOLATION record is not one of the responses: {l}");
            v["request"]["qid"].as_str().unwrap().to_string()
        };
        assert!(seen.insert(qid.clone()), "VIOLATION record for {qid} occurs twice");
        order.push(qid);
    }
    println!("ORDER {}", order.join(","));
    let _ = std::fs::remove_file(&file);
}
